// Property interface: generator (seed -> plan) and judge (plan -> violations).
#pragma once
#include <cstdint>
#include <functional>
#include <map>
#include <nlohmann/json.hpp>
#include <string>
#include <vector>

namespace sim {

using json = nlohmann::json;

struct Violation {
	std::string cls;    // normalised violation class (stable signature)
	std::string detail; // human-readable explanation
	json plan;          // plan that reproduces it (faults made explicit); null = the judged plan
};

struct Counters : std::map<std::string, uint64_t> {
	void add(const std::string &k, uint64_t v = 1) { (*this)[k] += v; }
};

struct JudgeOut {
	std::vector<Violation> viol;
	uint64_t hash = 0;        // fingerprint of all event logs produced while judging
	uint64_t evals = 0;       // executions of the plan (variants, enumerated faults)
	bool discarded = false;   // baseline not usable (DESIGN appendix B)
	std::vector<uint64_t> distinct; // fingerprints of distinct non-trivial cases explored
	std::vector<uint64_t> states;   // fingerprints of the context states (canonical dumps) reached
	std::vector<uint64_t> schedules; // fingerprints of the interleavings (client / op-kind sequences) of multi-client plans
	Counters k;               // fault / reach / coverage counters
};

struct Property {
	std::string id;
	std::string level;      // evidence level
	std::string rule;       // how cases are generated and what counts as distinct non-trivial
	std::vector<std::string> assumptions;
	std::vector<std::string> probes;   // reach probes that must be non-zero
	std::map<std::string, std::string> components; // real vs stub
	double quick_seconds = 25, thorough_seconds = 600;
	std::function<json(uint64_t seed, uint64_t idx, int tier)> generate;
	std::function<JudgeOut(const json &plan)> judge;
};

const Property *find_property(const std::string &id);
std::vector<const Property *> all_properties();
void register_property(Property *p);

struct Registrar {
	explicit Registrar(Property *p) { register_property(p); }
};

// A judge that enumerates sub-cases of a plan (k-th allocation, cut point, ...) announces each one before
// executing it, as a JSON Patch that turns the enumerating plan into the explicit one.  If the process dies
// inside the sub-case the driver rebuilds the narrowed plan from the last announcement.
void note_subcase(const json &patch);

// helpers shared by judges
uint64_t plan_fingerprint(const json &plan); // content hash ignoring seed / violation metadata

} // namespace sim
