// C10 — a rejected update leaves the option exactly as it was.
// A history brings options into state classes (pristine default, explicitly set, emptied, annotated, list of n,
// titled sections present); then refusing calls are injected (bad element at position k of a bulk set, vetoing
// pre-set validator, wrong type, illegal index, duplicate / missing title, unconvertible text).  Oracle O-snap.
#include "store.h"

namespace sim {
namespace {

const char *BAD_INT[] = {"zz", "1x", "", "0x", "9999999999999999999999", "--1", "0b2", "08", " 5", "5 "};
const char *BAD_FLOAT[] = {"zz", "1x", "", "1e999", "--1", ".", "e5", " 1"};
const char *BAD_BOOL[] = {"zz", "1", "", "maybe", "tru", "yess", "0"};

std::string bad_text(Rng &r, const std::string &t)
{
	if (t == "int")
		return BAD_INT[r.below(sizeof(BAD_INT) / sizeof(BAD_INT[0]))];
	if (t == "float")
		return BAD_FLOAT[r.below(sizeof(BAD_FLOAT) / sizeof(BAD_FLOAT[0]))];
	return BAD_BOOL[r.below(sizeof(BAD_BOOL) / sizeof(BAD_BOOL[0]))];
}

std::string good_text(Rng &r, const std::string &t)
{
	if (t == "int")
		return std::to_string(r.range(-99, 99));
	if (t == "float")
		return gen_float_literal(r);
	if (t == "bool")
		return gen_bool_literal(r);
	return gen_string_value(r, false, 5);
}

json typed(Rng &r, const std::string &t)
{
	if (t == "int")
		return r.range(-500, 500);
	if (t == "float")
		return (double)r.range(-80, 80) / 4.0;
	if (t == "bool")
		return r.chance(1, 2);
	return to_json_bytes(gen_string_value(r, false, 6));
}

json refusal(Rng &r, const std::vector<OptRef> &refs, int cl)
{
	// pick until a refusal fits the option
	for (int tries = 0; tries < 40; tries++) {
		const OptRef &ref = refs[r.below(refs.size())];
		std::string t = ref.decl["t"].get<std::string>();
		int fl = ref.decl.value("fl", 0);
		bool list = (fl & F_LIST) != 0;
		bool value_opt = t == "int" || t == "float" || t == "bool" || t == "str";
		json s;
		s["cl"] = cl;
		s["c"] = 0;
		s["at"] = ref.at;
		s["name"] = ref.decl["n"];
		switch (r.below(11)) {
		case 0: // bulk set, unconvertible element at position p
			if (!value_opt || t == "str" || ref.decl.value("pcb", 0))
				continue;
			{
				int n = list ? (int)r.range(1, 4) : 1;
				int p = (int)r.below(n);
				json vals = json::array();
				for (int i = 0; i < n; i++)
					vals.push_back(to_json_bytes(i == p ? bad_text(r, t) : good_text(r, t)));
				s["op"] = "setmulti";
				s["vals"] = vals;
				if (r.chance(1, 3))
					s["byopt"] = true;
				s["refusal"] = "bulk_bad_element_at_" + std::string(p == 0 ? "first" : p == n - 1 ? "last" : "middle");
			}
			return s;
		case 1: // vetoing pre-set validator
			if (!ref.decl.value("vcb2", 0) || t == "bool")
				continue;
			s["op"] = "set" + t;
			s["v"] = typed(r, t);
			if (t == "str" && r.chance(1, 4))
				s["v"] = nullptr; // "no string" is a value a validator may refuse like any other
			s["idx"] = list ? (unsigned)r.below(3) : 0u;
			s["cb2"] = "veto";
			{
				static const int verdicts[] = {1, 1, -1, 2, -100};
				s["cb2v"] = verdicts[r.below(5)];
			}
			s["refusal"] = list ? "veto_on_list" : "veto_on_scalar";
			return s;
		case 2: { // wrong type
			if (!value_opt)
				continue;
			static const char *types[] = {"int", "float", "bool", "str"};
			std::string wt = types[r.below(4)];
			if (wt == t)
				continue;
			s["op"] = std::string(r.chance(1, 2) ? "set" : "oset") + wt;
			s["v"] = typed(r, wt);
			s["idx"] = 0u;
			s["refusal"] = "wrong_type";
			return s;
		}
		case 3: // illegal index on a scalar
			if (!value_opt || list)
				continue;
			s["op"] = std::string(r.chance(1, 2) ? "set" : "oset") + t;
			s["v"] = typed(r, t);
			s["idx"] = (unsigned)r.range(1, 4);
			s["refusal"] = "index_beyond_scalar";
			return s;
		case 4: // duplicate title
			if (t != "sec" || !(fl & F_MULTI) || !(fl & F_TITLE))
				continue;
			s["op"] = "addtsec";
			{
				static const char *dups[] = {"dup", "dup", "", "x|y", "it's"}; // the empty title is a title like any other
				s["title"] = dups[r.below(5)];
			}
			s["refusal"] = "duplicate_title";
			s["needs_title"] = s["title"];
			if (ref.decl.contains("sub"))
				s["subs"] = ref.decl["sub"];
			return s;
		case 5: // remove what is not there
			if (t != "sec")
				continue;
			switch (r.below(3)) {
			case 0:
				s["op"] = "rmnsec";
				s["idx"] = (unsigned)r.range(7, 9);
				break;
			case 1:
				if (!(fl & F_TITLE))
					continue;
				s["op"] = "rmtsec";
				s["title"] = "no-such-title";
				break;
			default:
				s["op"] = "rmsec";
				{
					static const char *badidx[] = {"=77", "=1st", "=0x", "=2.0", "=-1", "=1 ", "=1e0", "="};
					// a qualifier on a single section never resolves; on a multi section a missing title or a malformed index
					std::string q = !(fl & F_MULTI) ? (r.chance(1, 2) ? "=zz" : "=0") : (fl & F_TITLE) ? (r.chance(1, 4) ? "=" : "=no-such-title") : badidx[r.below(8)];
					std::string nm = ref.decl["n"].get<std::string>() + q;
					// half of the nested ones are addressed by one path from the top
					if (!ref.at.empty() && r.chance(1, 2)) {
						nm = path_prefix(r, ref.at) + nm;
						s["at"] = json::array();
					}
					s["name"] = nm;
				}
				break;
			}
			s["refusal"] = "remove_missing";
			return s;
		case 6: // set-from-text, unconvertible
			if (value_opt && ref.decl.value("pcb", 0)) {
				// the option's value-parsing callback refuses the text
				bool bulk = r.chance(1, 2);
				s["op"] = bulk ? "setmulti" : "setopt";
				if (bulk)
					s["vals"] = json::array({"cbtext"});
				else
					s["v"] = "cbtext";
				s["fcb"] = 1;
				s["refusal"] = list ? "callback_refuses_text_list" : "callback_refuses_text_scalar";
				return s;
			}
			if (!value_opt || t == "str")
				continue;
			s["op"] = "setopt";
			s["v"] = to_json_bytes(bad_text(r, t));
			s["refusal"] = list ? "text_unconvertible_list" : "text_unconvertible_scalar";
			return s;
		case 7: // titled add on something that is not a section
			if (!value_opt)
				continue;
			s["op"] = "addtsec";
			s["title"] = "5";
			s["refusal"] = "addtsec_on_value_option";
			return s;
		case 8:
			if (value_opt && r.chance(1, 2)) {
				// a bulk set without any value
				s["op"] = "setmulti";
				s["vals"] = json::array();
				s["refusal"] = "bulk_without_values";
				return s;
			}
			s["name"] = "nosuchoption";
			s["op"] = "setint";
			s["v"] = 1;
			s["idx"] = 0u;
			s["refusal"] = "unknown_name";
			return s;
		case 9: // remove on a value option
			if (!value_opt)
				continue;
			s["op"] = r.chance(1, 2) ? "rmnsec" : "rmtsec";
			s["idx"] = 0u;
			s["title"] = "t0";
			s["refusal"] = "remove_on_value_option";
			return s;
		default: // list set/append on a scalar
			if (!value_opt || list)
				continue;
			s["op"] = r.chance(1, 2) ? "setlist" : "addlist";
			s["vals"] = json::array({typed(r, t)});
			s["refusal"] = "list_call_on_scalar";
			return s;
		}
	}
	json s;
	s["cl"] = cl;
	s["c"] = 0;
	s["op"] = "dump";
	return s;
}

json generate(uint64_t seed, uint64_t idx, int tier)
{
	(void)idx;
	Rng r(seed);
	json plan;
	SchemaGen sg;
	sg.max_opts = 6;
	sg.max_depth = 2;
	sg.vcb2 = true;
	sg.pcb = true; // some options convert their text through a value-parsing callback, which may refuse
	json schema = gen_schema(r, sg);
	plan["schemas"] = json::array({schema});
	int flags = r.chance(1, 2) ? F_COMMENTS : 0;
	json steps = json::array();
	json init = step(0, "init", 0);
	init["flags"] = flags;
	init["keep"] = 1;
	steps.push_back(init);
	std::vector<OptRef> refs = collect_opts(r, schema["opts"]);
	if (r.chance(1, 4)) {
		TextGen tg;
		tg.max_items = 5;
		tg.ctx_flags = flags;
		json p = step(0, "parse", 0);
		p["src"] = {{"kind", "buf"}, {"chunks", chunks_to_json(gen_text(r, schema["opts"], tg))}};
		steps.push_back(p);
	}
	// history that creates the state classes; refusals are placed right after the operations that create them
	ApiGen ag;
	ag.illegal = false;
	ag.bad_text = false;
	int rounds = (int)r.range(1, tier ? 6 : 4);
	for (int k = 0; k < rounds; k++) {
		int nh = (int)r.range(0, 3);
		for (int i = 0; i < nh; i++) {
			json s = gen_api_step(r, 0, 0, refs, ag);
			steps.push_back(s);
			// make sure annotated / emptied / titled states occur often
			if (r.chance(1, 3) && s.contains("name") && s["op"] != "rmsec") {
				json c = s;
				for (const char *key : {"v", "vals", "idx", "title", "byopt"})
					c.erase(key);
				unsigned w = (unsigned)r.below(3);
				if (w == 0) {
					c["op"] = "setcomment";
					c["text"] = "note " + std::to_string(r.below(100));
				} else if (w == 1) {
					c["op"] = "setlist";
					c["vals"] = json::array();
				} else {
					c["op"] = "addtsec";
					c["title"] = "dup";
				}
				steps.push_back(c);
			}
		}
		json rf = refusal(r, refs, 0);
		if (rf.contains("needs_title")) {
			json pre = rf;
			pre.erase("refusal");
			pre.erase("needs_title");
			pre.erase("subs");
			steps.push_back(pre); // creates the title (or is itself refused if it exists: also fine)
			// ... and the instance gets contents that differ from its defaults: a refused duplicate must not touch them
			if (rf["at"].empty() && rf.contains("subs"))
				for (auto &so : rf["subs"]) {
					std::string t = so["t"].get<std::string>();
					if (so.value("fl", 0) & F_LIST || so.contains("simple") || so.value("pcb", 0) || (t != "int" && t != "bool" && t != "str"))
						continue;
					std::string title;
					for (unsigned char c : rf["title"].get<std::string>())
						title += (c == '"' || c == '\\') ? std::string("\\") + (char)c : std::string(1, (char)c);
					std::string v = t == "int" ? "4711" : t == "bool" ? (so.value("d", false) ? "false" : "true") : "\"changed\"";
					steps.push_back(parse_step(0, 0, "buf", rf["name"].get<std::string>() + " \"" + title + "\" { " + so["n"].get<std::string>() + " = " + v + " }\n"));
					break;
				}
			rf.erase("subs");
		}
		steps.push_back(rf);
	}
	plan["steps"] = steps;
	plan["frozen"] = json::array({"schemas"});
	return plan;
}

// the addressed option (or null) in a tree
const json *opt_in(const json &tree, const json &st)
{
	json t2 = tree;
	(void)t2;
	const json *cur = &tree;
	if (st.contains("at"))
		for (auto &a : st["at"]) {
			const json *found = nullptr;
			if (!cur->is_object() || !cur->contains("opts"))
				return nullptr;
			for (auto &o : (*cur)["opts"])
				if (o["n"] == a[0])
					found = &o;
			if (!found || (*found)["t"] != "sec")
				return nullptr;
			size_t i = a[1].get<size_t>();
			if (i >= (*found)["s"].size())
				return nullptr;
			cur = &(*found)["s"][i]["cfg"];
		}
	if (!cur->is_object() || !cur->contains("opts") || !st.contains("name"))
		return nullptr;
	for (auto &o : (*cur)["opts"])
		if (o["n"] == st["name"])
			return &o;
	return nullptr;
}

std::string first_diff(const json &a, const json &b, const std::string &path = "")
{
	if (a == b)
		return "";
	if (a.is_object() && b.is_object()) {
		for (auto it = a.begin(); it != a.end(); ++it) {
			if (!b.contains(it.key()))
				return path + "/" + it.key() + " missing";
			std::string d = first_diff(it.value(), b[it.key()], path + "/" + (it.key() == "opts" || it.key() == "s" || it.key() == "cfg" ? "" : it.key()));
			if (!d.empty())
				return d;
		}
		return path + " keys differ";
	}
	if (a.is_array() && b.is_array()) {
		if (a.size() != b.size())
			return path + ": " + std::to_string(a.size()) + " -> " + std::to_string(b.size()) + " elements (" + a.dump().substr(0, 120) + " -> " + b.dump().substr(0, 120) + ")";
		for (size_t i = 0; i < a.size(); i++) {
			std::string label = a[i].is_object() && a[i].contains("n") ? a[i]["n"].get<std::string>() : std::to_string(i);
			std::string d = first_diff(a[i], b[i], path + "[" + label + "]");
			if (!d.empty())
				return d;
		}
	}
	return path + ": " + a.dump().substr(0, 120) + " -> " + b.dump().substr(0, 120);
}

JudgeOut judge(const json &plan)
{
	JudgeOut out;
	ExecOpts eo;
	eo.want_tree = true;
	RunResult r = execute(plan, eo);
	add_exec_counters(out, r);
	death_and_stdout(r, "", out.viol);
	out.viol.erase(std::remove_if(out.viol.begin(), out.viol.end(), [](const Violation &v) { return v.cls.compare(0, 7, "stdout:") == 0 || v.cls.compare(0, 6, "stdin:") == 0; }), out.viol.end());
	// a death inside a refusing call is reported with the refusal kind
	const json &steps = plan["steps"];
	for (auto &v : out.viol)
		for (auto &o : r.ops)
			if (o.death != D_NONE && o.index >= 0 && (size_t)o.index < steps.size() && steps[o.index].contains("refusal"))
				v.cls += ":" + steps[o.index]["refusal"].get<std::string>();
	if (r.died)
		return out;
	std::map<int, json> last;
	for (auto &o : r.ops) {
		if (o.index < 0 || (size_t)o.index >= steps.size())
			continue;
		const json &st = steps[o.index];
		int key = o.client * 1000 + o.ctx;
		bool is_refusal = st.contains("refusal") && !o.skipped && last.count(key) && !o.tree.is_null();
		if (is_refusal) {
			std::string kind = st["refusal"].get<std::string>();
			const json &before = last[key];
			const json *bo = opt_in(before, st);
			// state class of the touched option when the refusal lands
			std::string state = "absent";
			if (bo) {
				if (!(*bo)["c"].is_null())
					state = "annotated";
				else if ((*bo)["t"] == "sec")
					state = (*bo)["s"].empty() ? "no_sections" : "sections_present";
				else if ((*bo)["R"].get<bool>() && !(*bo)["v"].empty())
					state = "pristine_default";
				else if ((*bo)["v"].empty())
					state = "empty";
				else
					state = (*bo)["v"].size() > 1 ? "list_of_n" : "explicitly_set";
			}
			out.k.add("fault.refusal." + kind + ".fired");
			out.k.add("state." + state);
			out.distinct.push_back(fnv64(kind + "|" + state + "|" + (bo ? (*bo)["t"].get<std::string>() : "-")));
			if (kind == "veto_on_list")
				out.k.add("probe.veto_on_list_element");
			if (state == "annotated")
				out.k.add("probe.refusal_on_annotated_option");
			if (state == "pristine_default")
				out.k.add("probe.refusal_on_pristine_default");
			// must the call be refused?  duplicate title only if the title really exists before the call
			bool must_fail = true;
			if (kind == "duplicate_title") {
				must_fail = false;
				if (bo)
					for (auto &s : (*bo)["s"])
						if (s["title"] == st["title"])
							must_fail = true;
			}
			if (kind == "remove_missing") {
				// computed from the configuration before the call, never from what the generator intended
				size_t n = bo ? (*bo)["s"].size() : 0;
				auto has_title = [&](const std::string &t) {
					if (bo)
						for (auto &s : (*bo)["s"])
							if (s["title"].is_string() && strcasecmp(s["title"].get<std::string>().c_str(), t.c_str()) == 0)
								return true;
					return false;
				};
				if (o.op == "rmnsec")
					must_fail = st.value("idx", 0u) >= n;
				else if (o.op == "rmtsec")
					must_fail = !has_title(st.value("title", std::string()));
				else {
					// remove by path: the store model (the one C09 checks the library against) resolves the path
					store::Model M;
					for (auto &s0 : steps)
						if (s0["op"] == "init" && s0.value("cl", 0) == st.value("cl", 0) && s0.value("c", 0) == st.value("c", 0))
							M.ctx_flags = s0.value("flags", 0);
					json copy = before;
					std::string why;
					bool fresh = false;
					must_fail = M.apply(copy, st, &why, &fresh) == store::FAIL;
				}
			}
			if (kind.compare(0, 4, "veto") == 0) {
				// the veto is only consulted for a legal by-name setter; an index beyond the list is a don't-care
				must_fail = true;
			}
			if (!must_fail)
				goto next;
			if (o.ret == 0) {
				out.viol.push_back({"refusal-accepted:" + kind, "step #" + std::to_string(o.index) + " (" + o.op + ", " + kind + ") must be refused but returned success\n" + st.dump().substr(0, 300), nullptr});
				break;
			}
			if (before != o.tree) {
				std::string d = first_diff(before, o.tree);
				out.viol.push_back({"O-snap:" + kind + ":" + state, "step #" + std::to_string(o.index) + " (" + o.op + ", " + kind + ") was refused (ret=" + std::to_string(o.ret) + ") but the configuration changed: " + d +
										    "\n  option state before: " + state + "\n" + st.dump().substr(0, 300),
						    nullptr});
				break;
			}
		}
	next:
		if (o.op == "free")
			last.erase(key);
		else if (!o.tree.is_null())
			last[key] = o.tree;
	}
	return out;
}

Property P = [] {
	Property p;
	p.id = "C10";
	p.level = "exploration";
	p.rule = "seeded schema (pre-set validators on some int/float/str scalars and lists) and a history of setter / list / section / annotation calls that brings options into the state "
		 "classes {pristine default, explicitly set, emptied, annotated, list of n, sections present}; after each round one refusing call is injected: bulk set with the "
		 "unconvertible element at the first / middle / last position, by-name setter vetoed by the validator (scalar and list), wrong-type setter, index beyond a scalar, "
		 "duplicate title, removal of a missing index / title / path, unconvertible set-from-text (scalar and list), titled add / remove / list call on the wrong kind of option, "
		 "unknown name; distinct = distinct (refusal kind, option state class, option type) triples";
	p.assumptions = {"a refusing call must report failure and leave the WHOLE context tree (every option's values, order, annotation, reset/modified markers) identical, compared through public getters and flag bits",
			 "a duplicate-title add is only required to fail when the title exists right before the call"};
	p.probes = {"veto_on_list_element", "refusal_on_annotated_option", "refusal_on_pristine_default"};
	p.components = {{"confuse.c", "real"}, {"pre-set validation callback", "stub: simulator party that vetoes on request"}};
	p.quick_seconds = 20;
	p.thorough_seconds = 300;
	p.generate = generate;
	p.judge = judge;
	return p;
}();
Registrar reg(&P);

} // namespace
} // namespace sim
