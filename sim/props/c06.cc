// C06 — rejected input is always reported, with the right file and line.
// The generator renders a valid text (possibly spread over an include tree) and knows file and extent of every
// token (M-line).  For every token position one run per fault: undeclared name, unconvertible value, wrong
// punctuation, premature end.  The first diagnostic must name the damaged file and the line on which the
// offending token ends; an accepted parse must deliver no diagnostic.
#include "common.h"
#include "inctree.h"
#include "events.h"

namespace sim {
namespace {

json generate(uint64_t seed, uint64_t idx, int tier)
{
	(void)idx;
	Rng r(seed);
	json plan;
	SchemaGen sg;
	sg.funcs = r.chance(1, 3);
	sg.include = true;
	sg.keystrval = r.chance(1, 2);
	sg.max_opts = 6;
	bool callbacks = r.chance(1, 3);
	sg.pcb = callbacks;
	sg.vcb = callbacks;
	json schema = gen_schema(r, sg);
	if (callbacks) {
		// no callback invocations while defaults are applied: every invocation belongs to a token of the text
		std::function<void(json &)> strip = [&](json &opts) {
			for (auto &o : opts) {
				if (o.value("pcb", 0) || o.value("vcb", 0) || o["t"] == "ptr")
					o.erase("dp");
				if (o.contains("sub"))
					strip(o["sub"]);
			}
		};
		strip(schema["opts"]);
	}
	plan["schemas"] = json::array({schema});
	// with ignore-unknown an undeclared name is skipped: accepted, and then silently
	int flags = (r.chance(1, 3) ? F_COMMENTS : 0) | (r.chance(1, 8) ? F_NOCASE : 0) | (r.chance(1, 6) ? F_IGNORE_UNKNOWN : 0);
	TextGen tg;
	tg.max_items = tier ? 10 : 7;
	tg.ctx_flags = flags & ~F_IGNORE_UNKNOWN; // the text itself stays free of undeclared items
	tg.skip_include = true;
	tg.comments = (int)r.range(1, 2);
	tg.multiline = true;
	std::vector<Chunk> flat = gen_text(r, schema["opts"], tg);
	Tree t;
	t.mode = 0;
	std::vector<Chunk> top = (!callbacks && r.chance(1, 2)) ? split(r, t, flat, 0, (int)r.range(1, 3)) : flat;
	json steps = json::array();
	json init = step(0, "init", 0);
	init["flags"] = flags;
	init["keep"] = 1;
	steps.push_back(init);
	std::string route = r.chance(1, 3) ? "fp" : (r.chance(1, 2) ? "buf" : "file");
	json p = step(0, "parse", 0);
	if (route == "file") {
		t.files["/t/top.conf"] = top;
		p["src"] = {{"kind", "file"}, {"path", "/t/top.conf"}};
	} else
		p["src"] = {{"kind", route}, {"chunks", chunks_to_json(top)}};
	p["main"] = 1;
	p["keep"] = 1;
	steps.push_back(p);
	plan["world"] = world_of(t);
	plan["knobs"] = {{"tty", r.chance(1, 8)}};
	plan["steps"] = steps;
	plan["params"] = {{"enumerate", "token"}, {"tier", tier}, {"callbacks", callbacks}};
	plan["frozen"] = json::array({"schemas"});
	return plan;
}

struct Source {
	std::string ptr;   // json pointer of the object holding "chunks"
	std::string name;  // file name the library reports for it
	bool top;
};

// every source (top-level + included files reachable in the world) that carries chunks
std::vector<Source> sources_of(const json &plan, size_t main_step)
{
	std::vector<Source> out;
	const json &src = plan["steps"][main_step]["src"];
	std::string kind = src.value("kind", "buf");
	std::string top_file;
	if (kind == "file")
		top_file = src.value("path", "");
	else
		out.push_back({"/steps/" + std::to_string(main_step) + "/src", kind == "buf" ? "[buf]" : "FILE", true});
	if (plan.contains("world") && plan["world"].contains("fs"))
		for (size_t i = 0; i < plan["world"]["fs"].size(); i++) {
			const json &f = plan["world"]["fs"][i];
			if (!f.contains("chunks"))
				continue;
			std::string path = f["path"].get<std::string>();
			out.push_back({"/world/fs/" + std::to_string(i), path, path == top_file});
		}
	return out;
}

// expected line of the end of token (ci,ti) inside its own file, and of a cut right before it
int line_at(const json &chunks, size_t ci, size_t byte_in_chunk)
{
	int line = 1;
	for (size_t c = 0; c < chunks.size(); c++) {
		std::string t = from_json_bytes(chunks[c]["t"].get<std::string>());
		size_t upto = c == ci ? std::min(byte_in_chunk, t.size()) : t.size();
		for (size_t i = 0; i < upto; i++)
			if (t[i] == '\n')
				line++;
		if (c == ci)
			break;
	}
	return line;
}

bool reachable(const json &plan, const std::string &file, const json &top_chunks, int depth = 0)
{
	// is 'file' included (transitively) from the top-level source?
	if (depth > 12)
		return false;
	for (auto &c : top_chunks)
		if (c.contains("inc")) {
			std::string inc = c["inc"].get<std::string>();
			if (inc == file)
				return true;
			for (auto &f : plan["world"]["fs"])
				if (f.value("path", std::string()) == inc && f.contains("chunks") && reachable(plan, file, f["chunks"], depth + 1))
					return true;
		}
	return false;
}

void check_fault(const json &plan, size_t main_step, const Source &src, const std::string &kind, const json &fault, int want_line, bool expect_error_possible, JudgeOut &out, int want_lo = -1)
{
	(void)expect_error_possible;
	// a cut inside a token that spans lines: the partial token may be rejected where it starts or where the input ends
	if (want_lo < 0 || want_lo > want_line)
		want_lo = want_line;
	RunResult r = execute(plan);
	add_exec_counters(out, r);
	out.k.add("fault." + kind + ".fired");
	const OpResult *o = nullptr;
	for (auto &x : r.ops)
		if (x.index == (int)main_step)
			o = &x;
	std::vector<Violation> v;
	death_and_stdout(r, "", v);
	for (auto &x : v)
		if (x.cls.compare(0, 6, "death:") == 0) {
			x.plan = plan;
			out.viol.push_back(x);
		}
	if (!o || r.died)
		return;
	std::string what = kind + " " + fault.dump() + " in " + src.name;
	if (o->ret == 0) {
		out.k.add("damaged_text_accepted");
		if (!o->diags.empty())
			out.viol.push_back({"accepted-with-diagnostic:" + kind, "the parse was accepted but " + std::to_string(o->diags.size()) + " diagnostic(s) were delivered (" + diag_str(*o) + ") [" + what + "]", plan});
		return;
	}
	out.k.add("probe.rejected_with_position_checked");
	if (!src.top)
		out.k.add("probe.error_inside_included_file");
	if (o->ret != 1) {
		out.viol.push_back({"wrong-return-code:" + kind, "a rejected parse must return the parse-error code, got " + std::to_string(o->ret) + " [" + what + "]", plan});
		return;
	}
	if (o->diags.empty()) {
		out.viol.push_back({"unreported:" + kind, "the parse failed without any diagnostic [" + what + "]", plan});
		return;
	}
	// with ignore-unknown an undeclared name is not an error: the item is skipped, and where a text that goes wrong
	// later is finally refused is not this fault's business (how undeclared items are skipped is C12's)
	bool ignore_unknown = false;
	for (auto &s0 : plan["steps"])
		if (s0["op"] == "init" && (s0.value("flags", 0) & F_IGNORE_UNKNOWN))
			ignore_unknown = true;
	if (ignore_unknown) {
		// (any damaged token can turn the item it belongs to into an undeclared one there)
		out.k.add("rejected_under_ignore_unknown_position_not_judged");
		return;
	}
	const Diag &d = o->diags[0];
	if (d.file != src.name)
		out.viol.push_back({"wrong-file:" + kind, "the first diagnostic names file '" + d.file + "' (context '" + d.sec + "'), expected '" + src.name + "' line " + std::to_string(want_line) + " [" + what + "]", plan});
	else if (d.line < want_lo || d.line > want_line)
		out.viol.push_back({"wrong-line:" + kind, "the first diagnostic names " + d.file + ":" + std::to_string(d.line) + " (context '" + d.sec + "'), expected line " + std::to_string(want_line) + " [" + what + "]", plan});
}

JudgeOut judge(const json &plan)
{
	JudgeOut out;
	const json &steps = plan["steps"];
	long main_step = -1;
	for (size_t i = 0; i < steps.size(); i++)
		if (steps[i].value("main", 0) && steps[i]["op"] == "parse")
			main_step = (long)i;
	if (main_step < 0)
		return out;
	bool enumerate = plan.contains("params") && plan["params"].contains("enumerate");
	json basep = plan;
	if (basep.contains("params"))
		basep["params"].erase("enumerate");
	std::vector<Source> srcs = sources_of(basep, (size_t)main_step);

	// strip explicit faults for the baseline
	json clean = basep;
	for (auto &s : srcs) {
		clean[json::json_pointer(s.ptr)].erase("mut");
		clean[json::json_pointer(s.ptr)].erase("cutat");
	}
	clean["steps"][main_step].erase("fcb");
	clean["steps"][main_step].erase("cberr");
	RunResult base = execute(clean);
	add_exec_counters(out, base);
	const OpResult *bo = nullptr;
	for (auto &x : base.ops)
		if (x.index == (int)main_step)
			bo = &x;
	if (!bo || base.died || bo->ret != 0) {
		out.discarded = true; // whether a valid text is accepted is C01's business
		out.k.add("baseline_unusable");
		return out;
	}
	if (!bo->diags.empty()) {
		out.viol.push_back({"accepted-with-diagnostic:baseline", "the undamaged text was accepted but " + std::to_string(bo->diags.size()) + " diagnostic(s) were delivered (" + diag_str(*bo) + ")", clean});
		return out;
	}
	out.k.add("texts");
	// top-level chunks (for reachability of included files)
	json top_chunks = json::array();
	for (auto &s : srcs)
		if (s.top)
			top_chunks = clean[json::json_pointer(s.ptr)]["chunks"];

	auto want_for = [&](const Source &s, const json &chunks, const std::string &key, const json &f) -> int {
		size_t ci = f[0].get<size_t>(), ti = f[1].get<size_t>();
		if (ci >= chunks.size() || ti >= chunks[ci]["toks"].size())
			return -1;
		if (key == "mut")
			return line_at(chunks, ci, chunks[ci]["toks"][ti][0].get<size_t>()); // replacement tokens are single-line: the line of the token start
		// cut: the line on which the delivered bytes end
		return line_at(chunks, ci, chunks[ci]["toks"][ti][0].get<size_t>() + (size_t)f[2].get<long>());
	};

	// ---- refusing callbacks: the diagnostic a callback raises names the line of the token whose processing invoked it
	auto callback_refusals = [&](const json &p0, long only_k) {
		const json &src = p0["steps"][main_step]["src"];
		if (!src.contains("chunks") || src.value("kind", "buf") == "file")
			return;
		const json &chunks = src["chunks"];
		std::vector<Ev> exp = expected_events(p0["schemas"][0]["opts"], chunks);
		std::vector<Obs> obs = observed_events(*bo);
		std::vector<size_t> assign;
		if (!match_trace(exp, obs, &assign, true).empty())
			return; // whether the trace is right is C14's business
		std::string name = src.value("kind", "buf") == "buf" ? "[buf]" : "FILE";
		for (uint64_t k = 1; k <= obs.size(); k++) {
			if (only_k > 0 && (long)k != only_k)
				continue;
			json p2 = p0;
			p2["steps"][main_step]["fcb"] = k;
			p2["steps"][main_step]["cberr"] = 1;
			if (only_k <= 0)
				note_subcase(json::array({{{"op", "add"}, {"path", "/steps/" + std::to_string(main_step) + "/fcb"}, {"value", k}}, {{"op", "add"}, {"path", "/steps/" + std::to_string(main_step) + "/cberr"}, {"value", 1}},
							  {{"op", "remove"}, {"path", "/params/enumerate"}}}));
			const Ev &e = exp[assign[k - 1]];
			int want = line_at(chunks, e.chunk, chunks[e.chunk]["toks"][e.tok][1].get<size_t>());
			RunResult r2 = execute(p2);
			add_exec_counters(out, r2);
			out.k.add("fault.callback_refuses.fired");
			out.distinct.push_back(mix(mix(plan_fingerprint(plan), 777), k));
			const OpResult *o = nullptr;
			for (auto &x : r2.ops)
				if (x.index == (int)main_step)
					o = &x;
			if (!o || r2.died)
				continue;
			std::string what = "invocation #" + std::to_string(k) + " (" + e.kind + " " + e.opt + ") refused";
			if (o->ret != 1)
				out.viol.push_back({"wrong-return-code:callback_refuses:" + e.kind, "a parse refused by a callback must return the parse-error code, got " + std::to_string(o->ret) + " [" + what + "]", p2});
			else if (o->diags.empty())
				out.viol.push_back({"unreported:callback_refuses:" + e.kind, "the refusing callback called cfg_error() but no diagnostic arrived [" + what + "]", p2});
			else if (o->diags[0].file != name || o->diags[0].line != want) {
				out.k.add("probe.callback_refusal_position_checked");
				out.viol.push_back({std::string(o->diags[0].file != name ? "wrong-file" : "wrong-line") + ":callback_refuses:" + e.kind,
						    "the diagnostic raised by the refusing callback names " + o->diags[0].file + ":" + std::to_string(o->diags[0].line) + " (context '" + o->diags[0].sec + "'), expected " + name + ":" + std::to_string(want) +
							    ", the line on which the token that triggered the callback ends [" + what + "]",
						    p2});
			} else
				out.k.add("probe.callback_refusal_position_checked");
			if (out.viol.size() > 8)
				return;
		}
	};

	if (!enumerate) {
		long k = steps[main_step].value("fcb", 0L);
		if (k > 0) {
			callback_refusals(clean, k);
			return out;
		}
		for (auto &s : srcs) {
			const json &so = basep[json::json_pointer(s.ptr)];
			for (const char *key : {"mut", "cutat"})
				if (so.contains(key)) {
					int want = want_for(s, so["chunks"], key, so[key]);
					int want_lo = -1;
					if (std::string(key) == "cutat" && so[key][0].get<size_t>() < so["chunks"].size() && so[key][1].get<size_t>() < so["chunks"][so[key][0].get<size_t>()]["toks"].size())
						want_lo = line_at(so["chunks"], so[key][0].get<size_t>(), so["chunks"][so[key][0].get<size_t>()]["toks"][so[key][1].get<size_t>()][0].get<size_t>());
					if (want > 0 && (s.top || reachable(basep, s.name, top_chunks)))
						check_fault(basep, (size_t)main_step, s, so.value("fkind", std::string(key)), so[key], want, true, out, want_lo);
				}
		}
		return out;
	}
	uint64_t fp = plan_fingerprint(plan);
	std::set<std::string> seen;
	if (plan["params"].value("callbacks", false)) {
		size_t before = out.viol.size();
		callback_refusals(clean, -1);
		for (size_t i = before; i < out.viol.size();) {
			if (!seen.insert(out.viol[i].cls).second)
				out.viol.erase(out.viol.begin() + i);
			else
				i++;
		}
	}
	for (auto &s : srcs) {
		if (!s.top && !reachable(basep, s.name, top_chunks))
			continue;
		const json &chunks = clean[json::json_pointer(s.ptr)]["chunks"];
		for (size_t ci = 0; ci < chunks.size(); ci++) {
			const json &toks = chunks[ci]["toks"];
			for (size_t ti = 0; ti < toks.size(); ti++) {
				std::string role = toks[ti][2].get<std::string>(), vt = toks[ti][3].get<std::string>();
				std::vector<std::pair<std::string, json>> faults; // (kind, {key,value})
				bool in_kv = toks[ti].size() > 5 && toks[ti][5].get<int>() != 0;
				if (role == "n" && vt != "kv" && !in_kv && toks[ti][4].get<int>() == 0) {
					// an option name written as a path into a declared section whose leaf does not exist
					for (auto &so : plan["schemas"][0]["opts"])
						if (so["t"] == "sec") {
							faults.push_back({"undeclared_leaf_in_path", {{"key", "mut"}, {"value", json::array({ci, ti, "\"" + so["n"].get<std::string>() + "|nosuch_zz\""})}}});
							break;
						}
				}
				if (role == "n" && vt != "kv" && !in_kv && toks[ti][4].get<int>() == 0) {
					// a path whose first component does not exist, or is a value option instead of a section
					faults.push_back({"undeclared_first_component_in_path", {{"key", "mut"}, {"value", json::array({ci, ti, "\"nosuch_zz|x\""})}}});
					for (auto &so : plan["schemas"][0]["opts"])
						if (so["t"] != "sec" && so["t"] != "func") {
							faults.push_back({"value_option_as_path_component", {{"key", "mut"}, {"value", json::array({ci, ti, "\"" + so["n"].get<std::string>() + "|x\""})}}});
							break;
						}
				}
				if (role == "n" && vt != "kv" && !in_kv && toks[ti][4].get<int>() == 0)
					// a path through a declared multi section that has no such instance
					for (auto &so : plan["schemas"][0]["opts"])
						if (so["t"] == "sec" && (so.value("fl", 0) & F_MULTI)) {
							std::string q = (so.value("fl", 0) & F_TITLE) ? "=no_such_title_zz" : "=97";
							faults.push_back({"no_such_instance_in_path", {{"key", "mut"}, {"value", json::array({ci, ti, "\"" + so["n"].get<std::string>() + q + "|x\""})}}});
							break;
						}
				if (role == "n" && vt != "kv" && !in_kv) // an empty quoted string where an option name is expected
					faults.push_back({"empty_name", {{"key", "mut"}, {"value", json::array({ci, ti, "\"\""})}}});
				if (role == "n" && vt != "kv" && !in_kv) // in a free-form section an unknown name is a new key, not an error
					faults.push_back({"undeclared_name", {{"key", "mut"}, {"value", json::array({ci, ti, "nosuch_zz"})}}});
				if (role == "v" && (vt == "int" || vt == "float" || vt == "bool")) {
					faults.push_back({"unconvertible_value", {{"key", "mut"}, {"value", json::array({ci, ti, "zz"})}}});
					// refused without a single unconverted character being left over: empty, a bare prefix, leading blank, out of range
					static const char *odd[] = {"\"\"", "0x", "\" 7\"", "99999999999999999999999", "0b", "\"7 \"", "1e99999"};
					faults.push_back({"unconvertible_value_odd_form", {{"key", "mut"}, {"value", json::array({ci, ti, odd[(ci * 7 + ti + fp) % 7]})}}});
				}
				// errors raised by the scanner itself: an octal escape above 0xFF, a digit escape that is not octal
				if ((role == "v" && vt == "str") || role == "a" || role == "t") {
					faults.push_back({"bad_escape", {{"key", "mut"}, {"value", json::array({ci, ti, (ci + ti) % 2 ? "\"ab\\400\"" : "\"\\9z\""})}}});
				}
				// an include statement whose target cannot be opened: reported for the including file, at the statement
				if (role == "a" && chunks[ci].contains("inc") && !chunks[ci].contains("incs")) {
					static const char *bad_targets[] = {"\"/t/nonexistent.conf\"", "\"/t/noperm.conf\"", "\"/t/adir\""};
					faults.push_back({"include_target_cannot_be_opened", {{"key", "mut"}, {"value", json::array({ci, ti, bad_targets[(ci + ti + fp) % 3]})}}});
				}
				// '+=' where the option is not a list
				if (role == "o" && ti > 0 && toks[ti - 1][2] == "n" && toks[ti - 1][3] == "scalar" && from_json_bytes(chunks[ci]["t"].get<std::string>()).substr(toks[ti][0].get<size_t>(), 1) == "=")
					faults.push_back({"append_to_scalar", {{"key", "mut"}, {"value", json::array({ci, ti, "+="})}}});
				if (role == "o")
					faults.push_back({"wrong_punctuation", {{"key", "mut"}, {"value", json::array({ci, ti, ")"})}}});
				if (role == "p")
					faults.push_back({"wrong_punctuation", {{"key", "mut"}, {"value", json::array({ci, ti, "="})}}});
				if (s.top && role != "c")
					faults.push_back({"premature_end", {{"key", "cutat"}, {"value", json::array({ci, ti, 0})}}});
				// the input ends inside the token: inside a quoted (possibly multi-line) string, a comment, a name
				long tlen = (long)(toks[ti][1].get<size_t>() - toks[ti][0].get<size_t>());
				if (s.top && tlen >= 2) {
					faults.push_back({"premature_end_inside_token", {{"key", "cutat"}, {"value", json::array({ci, ti, 1})}}});
					if (tlen >= 4)
						faults.push_back({"premature_end_inside_token", {{"key", "cutat"}, {"value", json::array({ci, ti, tlen - 1})}}});
				}
				if (!s.top && tlen >= 2) {
					// an included file that ends inside a single-quoted string: the scanner itself reports it, for that file.
					// (Inside a double-quoted string or a block comment the scanner carries on in the includer - "the text in
					// place", C13 - so where such an input is finally refused is not this fault's business.)
					std::string raw = from_json_bytes(chunks[ci]["t"].get<std::string>()).substr(toks[ti][0].get<size_t>(), 2);
					if (raw[0] == '\'') {
						faults.push_back({"included_file_ends_inside_token", {{"key", "cutat"}, {"value", json::array({ci, ti, 1})}}});
						if (tlen >= 4)
							faults.push_back({"included_file_ends_inside_token", {{"key", "cutat"}, {"value", json::array({ci, ti, tlen - 1})}}});
					}
				}
				for (auto &f : faults) {
					std::string key = f.second["key"].get<std::string>();
					json p2 = clean;
					p2[json::json_pointer(s.ptr)][key] = f.second["value"];
					p2[json::json_pointer(s.ptr)]["fkind"] = f.first;
					note_subcase(json::array({{{"op", "add"}, {"path", s.ptr + "/" + key}, {"value", f.second["value"]}}, {{"op", "add"}, {"path", s.ptr + "/fkind"}, {"value", f.first}},
								  {{"op", "remove"}, {"path", "/params/enumerate"}}}));
					int want = want_for(s, chunks, key, f.second["value"]);
					int want_lo = key == "cutat" ? line_at(chunks, ci, toks[ti][0].get<size_t>()) : -1;
					out.distinct.push_back(mix(mix(fp, fnv64(s.ptr + f.first)), ci * 1000 + ti));
					size_t before = out.viol.size();
					check_fault(p2, (size_t)main_step, s, f.first, f.second["value"], want, true, out, want_lo);
					for (size_t i = before; i < out.viol.size();) {
						if (!seen.insert(out.viol[i].cls).second)
							out.viol.erase(out.viol.begin() + i);
						else
							i++;
					}
				}
			}
		}
	}
	return out;
}

Property P = [] {
	Property p;
	p.id = "C06";
	p.level = "fault_enumeration";
	p.rule = "seeded schema (no deprecated options; nested / multi / titled / free-form sections; include) and a rendered valid text with any mix of comment styles, blank lines and "
		 "multi-line strings, delivered as buffer / stream / file and in half of the runs spread over an include tree; for EVERY token of every file one run per applicable fault: "
		 "undeclared name (not in free-form sections), unconvertible value (int/float/bool), invalid escape sequence in a string / title / argument (raised by the scanner), wrong punctuation, premature end right before the token and inside it - one byte after "
		 "its start and one byte before its end, i.e. inside strings, comments and names - (top-level source); in a third of the plans the schema carries value / validation "
		 "callbacks and for EVERY invocation k the k-th one refuses and reports through cfg_error(): the diagnostic must name the line on which the triggering token ends; "
		 "distinct = distinct (text, file, token, fault) tuples";
	p.assumptions = {"M-line: the generator knows file and byte extent of every token it rendered; the expected line is 1 + the number of newlines before the token in its own file (each newline counted once)",
			 "because the text before the injection point is valid and the parser is one-pass, the first diagnostic must be about the injected token",
			 "the return code is observed, not predicted: a damaged text that is still accepted must deliver no diagnostic (whether it should be accepted is C01)",
			 "for a cut inside a token that spans several lines any line from the token's first line to the line on which the delivered bytes end is accepted",
			 "in a sixth of the plans the context ignores undeclared items: there any damaged token can turn its item into an undeclared one, which is skipped - only 'accepted means no diagnostic' and 'refused means reported with the parse-error code' are judged, not the position",
			 "a plan whose undamaged text is not accepted is discarded and counted; premature ends inside included files are injected only inside single-quoted strings (anywhere else the scanner continues in the includer by design)",
			 "the schedule dimension is empty for this property: the fault is a corruption / cut at a known instant of a known file in the simulated include tree"};
	p.probes = {"rejected_with_position_checked", "error_inside_included_file", "callback_refusal_position_checked"};
	p.components = {{"confuse.c parser and cfg_error", "real"}, {"lexer line bookkeeping", "real"}, {"error callback", "stub: records file and line of the context handed to it"}, {"file namespace", "stub"}};
	p.quick_seconds = 20;
	p.thorough_seconds = 400;
	p.generate = generate;
	p.judge = judge;
	return p;
}();
Registrar reg(&P);

} // namespace
} // namespace sim
