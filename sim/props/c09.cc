// C09 — setter, list and section API behaves as a simple typed store.
// Operation histories stepped in lock-step against M-store (store.h); two clients interleaved (O-solo).
#include "store.h"

namespace sim {
namespace {

// ---- exhaustive part: every call sequence up to a depth bound over a finite alphabet on a fixed schema
json fixed_schema9()
{
	json ms_sub = json::array({{{"n", "k"}, {"t", "int"}, {"d", 0}}, {{"n", "kl"}, {"t", "int"}, {"fl", F_LIST}, {"dp", "{7}"}}});
	json one_sub = json::array({{{"n", "x"}, {"t", "int"}, {"d", 1}}});
	json opts = json::array({{{"n", "i"}, {"t", "int"}, {"d", 5}},
				 {{"n", "s"}, {"t", "str"}, {"d", "x"}},
				 {{"n", "il"}, {"t", "int"}, {"fl", F_LIST}, {"dp", "{1, 2}"}},
				 {{"n", "sl"}, {"t", "str"}, {"fl", F_LIST}},
				 {{"n", "ms"}, {"t", "sec"}, {"fl", F_MULTI | F_TITLE}, {"sub", ms_sub}},
				 {{"n", "one"}, {"t", "sec"}, {"sub", one_sub}}});
	return {{"opts", opts}};
}

std::vector<json> alphabet9()
{
	std::vector<json> a;
	auto mk = [&](const std::string &op, const std::string &name, json extra) {
		json s = step(0, op, 0);
		s["name"] = name;
		for (auto it = extra.begin(); it != extra.end(); ++it)
			s[it.key()] = it.value();
		a.push_back(s);
	};
	json in_ms0 = json::array({json::array({"ms", 0})}), in_one = json::array({json::array({"one", 0})});
	mk("setint", "i", {{"v", 9}, {"idx", 0}});
	mk("setint", "i", {{"v", 9}, {"idx", 1}});           // index beyond a scalar
	mk("setstr", "s", {{"v", "y"}, {"idx", 0}});
	mk("setint", "s", {{"v", 1}, {"idx", 0}});           // wrong type
	mk("setint", "nosuch", {{"v", 1}, {"idx", 0}});      // unknown name
	mk("setint", "il", {{"v", 8}, {"idx", 0}});
	mk("osetint", "il", {{"v", 8}, {"idx", 1}});
	mk("addlist", "il", {{"vals", json::array({3})}});
	mk("addlist", "il", {{"vals", json::array({4, 5})}});
	mk("setlist", "il", {{"vals", json::array({6})}});
	mk("setlist", "il", {{"vals", json::array()}});
	mk("setmulti", "il", {{"vals", json::array({"10", "11"})}});
	mk("setmulti", "il", {{"vals", json::array({"10", "zz"})}}); // refused
	mk("setmulti", "il", {{"vals", json::array()}});             // no values: refused
	mk("addlist", "sl", {{"vals", json::array({"a"})}});
	mk("setlist", "sl", {{"vals", json::array({"b", "c"})}});
	mk("addtsec", "ms", {{"title", "t1"}});
	mk("addtsec", "ms", {{"title", "t2"}});
	mk("rmtsec", "ms", {{"title", "t1"}});
	mk("rmnsec", "ms", {{"idx", 0}});
	mk("rmsec", "ms=t2", json::object());
	mk("setint", "k", {{"v", 3}, {"idx", 0}, {"at", in_ms0}});
	mk("addlist", "kl", {{"vals", json::array({9})}, {"at", in_ms0}});
	mk("setint", "x", {{"v", 2}, {"idx", 0}, {"at", in_one}});
	mk("addlist", "i", {{"vals", json::array({1})}});    // list call on a scalar
	return a;
}

const uint64_t A9 = 25;
const uint64_t ENUM9 = A9 + A9 * A9 + A9 * A9 * A9; // all sequences of length 1..3
// start states: 0 pristine, 1 produced by an accepted parse
const uint64_t ENUM9_TOTAL = 2 * ENUM9;

json enumerated_plan(uint64_t e)
{
	json plan;
	plan["schemas"] = json::array({fixed_schema9()});
	json steps = json::array();
	json init = step(0, "init", 0);
	init["keep"] = 1;
	steps.push_back(init);
	bool parsed = e >= ENUM9;
	if (parsed) {
		e -= ENUM9;
		steps.push_back(parse_step(0, 0, "buf", "i = 7\nil += {3}\nsl = {p}\nms \"t1\" { k = 1 }\nms \"t3\" { kl = {} }\none { x = 4 }\n"));
	}
	std::vector<json> a = alphabet9();
	std::vector<uint64_t> seq;
	if (e < A9)
		seq = {e};
	else if (e < A9 + A9 * A9) {
		e -= A9;
		seq = {e / A9, e % A9};
	} else {
		e -= A9 + A9 * A9;
		seq = {e / (A9 * A9), (e / A9) % A9, e % A9};
	}
	for (uint64_t k : seq)
		steps.push_back(a[k]);
	plan["steps"] = steps;
	plan["params"] = {{"clients", 1}, {"enumerated", true}};
	plan["frozen"] = json::array({"schemas"});
	return plan;
}

json generate(uint64_t seed, uint64_t idx, int tier)
{
	// thorough: all call sequences up to depth 3 over the 25-call alphabet, from both start states (32,550 plans), then seeded
	// histories; quick: the depth-<=2 part from the pristine state (600 plans) first
	if (tier && idx < ENUM9_TOTAL)
		return enumerated_plan(idx);
	if (!tier && idx < A9 + A9 * A9)
		return enumerated_plan(idx);
	Rng r(seed);
	json plan;
	SchemaGen sg;
	sg.max_opts = 6;
	sg.max_depth = 2;
	sg.simple = true; // some top-level scalars are bound to application variables
	json schema = gen_schema(r, sg);
	plan["schemas"] = json::array({schema});
	// case-insensitive runs: the flag on the context and on every titled section, so that every route that compares
	// titles (add, remove, lookup by path, the parser) uses the same rule
	int flags = r.chance(1, 4) ? F_NOCASE : 0;
	if (flags) {
		std::function<void(json &)> mark = [&](json &opts) {
			for (auto &o : opts)
				if (o["t"] == "sec") {
					if (o.value("fl", 0) & F_TITLE)
						o["fl"] = o.value("fl", 0) | F_NOCASE;
					if (o.contains("sub"))
						mark(o["sub"]);
				}
		};
		mark(schema["opts"]);
	}
	int nclients = r.chance(1, 4) ? 2 : 1;
	if (nclients > 1)
		for (auto &o : schema["opts"])
			o.erase("simple"); // two contexts from these declarations would share the variable (that is its contract)
	plan["schemas"] = json::array({schema});
	json steps = json::array();
	for (int cl = 0; cl < nclients; cl++) {
		json init = step(cl, "init", 0);
		init["flags"] = flags;
		init["keep"] = 1;
		steps.push_back(init);
	}
	// start state: pristine, or produced by an accepted parse
	for (int cl = 0; cl < nclients; cl++)
		if (r.chance(1, 3)) {
			TextGen tg;
			tg.max_items = 5;
			tg.ctx_flags = flags;
			tg.comments = 0;
			json p = step(cl, "parse", 0);
			p["src"] = {{"kind", "buf"}, {"chunks", chunks_to_json(gen_text(r, schema["opts"], tg))}};
			steps.push_back(p);
		}
	ApiGen ag;
	ag.getters = true;
	ag.comments = true;
	ag.flip_title_case = flags != 0;
	int maxops = tier ? 30 : 16;
	int n = (int)r.range(3, maxops);
	std::vector<std::vector<OptRef>> refs;
	for (int cl = 0; cl < nclients; cl++)
		refs.push_back(collect_opts(r, schema["opts"]));
	for (int i = 0; i < n; i++) {
		int cl = (int)r.below(nclients);
		steps.push_back(gen_api_step(r, cl, 0, refs[cl], ag));
	}
	plan["steps"] = steps;
	plan["params"] = {{"clients", nclients}};
	plan["frozen"] = json::array({"schemas"});
	return plan;
}

JudgeOut judge(const json &plan)
{
	JudgeOut out;
	ExecOpts eo;
	eo.want_tree = true;
	RunResult r = execute(plan, eo);
	add_exec_counters(out, r);
	note_schedule(out, plan);
	death_and_stdout(r, "", out.viol);
	out.viol.erase(std::remove_if(out.viol.begin(), out.viol.end(), [](const Violation &v) { return v.cls.compare(0, 7, "stdout:") == 0 || v.cls.compare(0, 6, "stdin:") == 0; }), out.viol.end());
	if (r.died)
		return out;
	const json &steps = plan["steps"];
	std::map<int, json> model;
	std::map<int, store::Model> M;
	std::map<std::string, json> templates;
	std::string hist;
	for (auto &o : r.ops) {
		if (o.index < 0 || (size_t)o.index >= steps.size())
			continue;
		const json &st = steps[o.index];
		int key = o.client * 1000 + o.ctx;
		hist += o.op + ">";
		if (o.op == "init") {
			model[key] = o.tree;
			M[key].ctx_flags = st.value("flags", 0);
			continue;
		}
		if (o.op == "free") {
			model.erase(key);
			continue;
		}
		if (o.op == "getters" && o.has_sres && o.sres.find("MISMATCH") != std::string::npos) {
			out.viol.push_back({"getter-mismatch", "step #" + std::to_string(o.index) + ": a by-name accessor disagrees with its by-option counterpart: " + o.sres.substr(0, 300) + "\n" + st.dump().substr(0, 200), nullptr});
			break;
		}
		if (!model.count(key) || o.skipped)
			continue;
		std::string why;
		bool fresh = false;
		json before = model[key];
		store::Pred pred = M[key].apply(model[key], st, &why, &fresh);
		out.k.add(std::string("model.") + (pred == store::OK ? "ok" : pred == store::FAIL ? "fail" : pred == store::NOCHANGE ? "nochange" : "dontcare"));
		if (pred == store::DONTCARE) {
			if (!o.tree.is_null())
				model[key] = o.tree;
			else
				model[key] = before;
			continue;
		}
		if (pred == store::NOCHANGE || o.tree.is_null())
			continue;
		std::string diff;
		std::string call = o.op + (why.empty() ? "" : " (" + why + ")");
		if (pred == store::FAIL) {
			out.k.add("probe.illegal_or_refused_call");
			if (o.ret == 0)
				out.viol.push_back({"illegal-call-accepted:" + o.op + ":" + why, "step #" + std::to_string(o.index) + " " + call + " must fail but returned success\n" + st.dump().substr(0, 300), nullptr});
			else if (!store::same_observable(before, o.tree, &diff))
				out.viol.push_back({"failed-call-changed-state:" + o.op + ":" + why, "step #" + std::to_string(o.index) + " " + call + " failed (ret=" + std::to_string(o.ret) + ") but changed the store: " + diff + "\n" + st.dump().substr(0, 300), nullptr});
			model[key] = o.tree;
			if (!out.viol.empty())
				break;
			continue;
		}
		// OK
		if (o.ret != 0) {
			out.viol.push_back({"valid-call-refused:" + o.op, "step #" + std::to_string(o.index) + " " + call + " is a legal store operation but returned " + std::to_string(o.ret) + "\n" + st.dump().substr(0, 300), nullptr});
			break;
		}
		if (fresh) {
			// adopt the content of the new instance (its defaults), and require every fresh instance of an option to look the same
			json *mn = store::navigate(model[key], st, M[key].nocase());
			json otree = o.tree;
			json *on = store::navigate(otree, st, M[key].nocase());
			std::string name = from_json_bytes(st["name"].get<std::string>());
			json *mo = mn ? store::find_opt(*mn, name, M[key].nocase()) : nullptr;
			json *oo = on ? store::find_opt(*on, name, M[key].nocase()) : nullptr;
			if (mo && oo && (*oo)["s"].size() == (*mo)["s"].size() && !(*mo)["s"].empty()) {
				json &inst = (*oo)["s"].back()["cfg"];
				(*mo)["s"].back()["cfg"] = inst;
				std::string tkey = (st.contains("at") ? st["at"].dump() : std::string("[]")) + "/" + name;
				out.k.add("probe.section_instance_added");
				if (!templates.count(tkey))
					templates[tkey] = inst;
				else if (templates[tkey] != inst)
					out.viol.push_back({"fresh-instance-differs:addtsec", "a new instance of section '" + name + "' does not have the declared defaults of the first one\n  first: " + templates[tkey].dump().substr(0, 400) +
												   "\n  now:   " + inst.dump().substr(0, 400),
							    nullptr});
			}
		}
		if (o.op == "addlist" && before != model[key]) {
			json b2 = before;
			json *bn = store::navigate(b2, st, M[key].nocase());
			json *bo = bn ? store::find_opt(*bn, from_json_bytes(st["name"].get<std::string>()), M[key].nocase()) : nullptr;
			if (bo && (*bo)["R"].get<bool>() && !(*bo)["v"].empty())
				out.k.add("probe.first_append_onto_pristine_defaults");
		}
		if ((o.op == "rmnsec" || o.op == "rmtsec" || o.op == "rmsec"))
			out.k.add("probe.section_removed");
		if (!store::same_observable(model[key], o.tree, &diff)) {
			if (why == "empty" && diff.find("modified flag") != std::string::npos) {
				// an empty set/append: the statement does not say whether it counts as a modification
				out.k.add("model.dontcare_empty_list_flag");
				model[key] = o.tree;
				continue;
			}
			out.viol.push_back({"store-mismatch:" + o.op, "after step #" + std::to_string(o.index) + " " + call + " the configuration differs from the abstract store: " + diff + " (model vs library)\n" + st.dump().substr(0, 300), nullptr});
			model[key] = o.tree;
			break;
		}
	}
	out.distinct.push_back(fnv64(hist + std::to_string(plan_fingerprint(plan))));
	out.k.add("histories");
	if (plan.contains("params") && plan["params"].value("enumerated", false))
		out.k.add("enumerated_histories_depth_le_3");
	// ---- O-solo
	int nclients = plan.contains("params") ? plan["params"].value("clients", 1) : 1;
	if (out.viol.empty() && nclients > 1) {
		out.k.add("probe.two_clients_interleaved");
		for (int cl = 0; cl < nclients; cl++) {
			ExecOpts oo;
			oo.only_client = cl;
			RunResult solo = execute(plan, oo);
			add_exec_counters(out, solo);
			size_t j = 0;
			for (auto &o : r.ops) {
				if (o.client != cl || o.op == "end")
					continue;
				while (j < solo.ops.size() && solo.ops[j].index != o.index)
					j++;
				if (j >= solo.ops.size())
					break;
				if (outcome(o) != outcome(solo.ops[j])) {
					out.viol.push_back({"O-solo:" + o.op, "client " + std::to_string(cl) + " step #" + std::to_string(o.index) + " (" + o.op + ") differs from the client's solo run\n  interleaved: " +
										      outcome(o).substr(0, 500) + "\n  solo:        " + outcome(solo.ops[j]).substr(0, 500),
							    nullptr});
					break;
				}
			}
			if (!out.viol.empty())
				break;
		}
	}
	return out;
}

Property P = [] {
	Property p;
	p.id = "C09";
	p.level = "exploration";
	p.rule = "seeded schemas (scalars, lists, nested single / multi / titled sections, no-default options; no callbacks) and histories of 3-30 API calls over the alphabet {typed "
		 "setters by name and by option with index, list set/append, bulk string set, titled-section add, remove by index / title / path, annotation, set-from-text, getters, "
		 "deliberately illegal calls (wrong type, unknown name, index beyond a scalar)} from the pristine state or from a state produced by an accepted parse, for 1 or 2 "
		 "interleaved clients; every call is stepped against the abstract store; before the seeded part ALL call sequences of length 1..3 over a fixed 25-call alphabet on a fixed "
		 "schema are enumerated, from the pristine state and from a parsed state (32,550 plans, thorough tier; the 650 sequences of length <= 2 from the pristine state in the quick "
		 "tier); distinct = distinct (history, schema) pairs";
	p.assumptions = {"M-store rules come from the statement; where it is silent the call is a don't-care and the model is re-synchronised from the observation: indexed setter on a list still "
			 "holding pristine defaults or at/beyond its end, bulk set of several values on a scalar, titled add on non-(multi+title) sections, set-from-text, annotation, parse, "
			 "quoted/multi-step remove paths, and whether an empty list set/append sets the modified flag",
			 "observed projection: size, values, titles in order, modified flag of value options (not the internal reset marker)",
			 "the content of a newly added section instance (its defaults) is taken from the observation and must equal the first fresh instance of the same option",
			 "no fault is injected for this property: what is decided is sequential refinement against a small executable model over seeded histories; the scheduler contributes the two-client interleaving"};
	p.probes = {"illegal_or_refused_call", "section_instance_added", "first_append_onto_pristine_defaults", "section_removed", "two_clients_interleaved"};
	p.components = {{"confuse.c setter / list / section API", "real"}, {"lexer (for start states and bulk set)", "real"}, {"abstract store", "reference model (store.h)"}};
	p.quick_seconds = 20;
	p.thorough_seconds = 300;
	p.generate = generate;
	p.judge = judge;
	return p;
}();
Registrar reg(&P);

} // namespace
} // namespace sim
