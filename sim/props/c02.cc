// C02 — no input text can corrupt memory, hang or kill the host process.
// A generator-rendered valid text is damaged by storage faults (cut, flipped bytes, duplicated / zeroed blocks,
// spliced meta tokens, tail garbage) and delivered by every route (buffer, stream, file, include); stress shapes
// are separate plans.  Monitored: sanitizers, exit/abort/assert seams, stdout, step budgets, return code; then the
// context must still be usable and a fresh context must parse a probe as in a fresh process image.
#include "common.h"

namespace sim {
namespace {

const char *DICT[] = {"\"", "'", "/*", "*/", "\\", "${", "}", "{", "(", ")", "+=", "=", ",", "#", "//", "include(", "\n", "\\x", "\\777", "\\9",
		      "${X", "${X:-", "\\\n", "|", "=", "'a|b=c'", "\"=\"", "\"|\"", "\"a=\"", "\"a='\"", "\"a='x\\\\\"", "\"a=1|\"", "0x", "0b", "-", "\r", "\t", "\x7f", "\x80", "\xff"};
const int NDICT = sizeof(DICT) / sizeof(DICT[0]);

std::string damage(Rng &r, std::string t, json &meta)
{
	int n = 1 + (int)r.below(3);
	for (int i = 0; i < n; i++) {
		size_t p = t.empty() ? 0 : r.below(t.size() + 1);
		switch (r.below(8)) {
		case 0: // cut
			t.resize(p);
			meta.push_back("cut@" + std::to_string(p));
			break;
		case 1: // flip
			if (!t.empty()) {
				p = r.below(t.size());
				t[p] = (char)r.range(0, 255);
				meta.push_back("flip@" + std::to_string(p));
			}
			break;
		case 2: { // duplicate a block
			size_t len = r.below(16) + 1;
			std::string blk = t.substr(std::min(p, t.size()), len);
			t.insert(r.below(t.size() + 1), blk);
			meta.push_back("dup@" + std::to_string(p));
			break;
		}
		case 3: { // zero a block (as after a torn write)
			size_t len = r.below(8) + 1;
			for (size_t k = p; k < t.size() && k < p + len; k++)
				t[k] = 0;
			meta.push_back("zero@" + std::to_string(p));
			break;
		}
		case 4:
		case 5: { // splice a meta token
			const char *d = DICT[r.below(NDICT)];
			t.insert(p, d);
			meta.push_back(std::string("splice@") + std::to_string(p));
			break;
		}
		case 6: { // tail garbage of arbitrary bytes
			size_t len = r.below(24) + 1;
			for (size_t k = 0; k < len; k++)
				t += (char)r.range(0, 255);
			meta.push_back("tail");
			break;
		}
		default: { // delete a block
			size_t len = r.below(8) + 1;
			if (p < t.size())
				t.erase(p, len);
			meta.push_back("del@" + std::to_string(p));
			break;
		}
		}
	}
	return t;
}

const char *PROBE_TEXT = "alpha = 1\n";

json stress_plan(Rng &r, int tier, uint64_t idx)
{
	json plan;
	json sub2 = json::array({{{"n", "x"}, {"t", "int"}, {"d", 0}}});
	json sub1 = json::array({{{"n", "k"}, {"t", "int"}, {"d", 0}}, {{"n", "in"}, {"t", "sec"}, {"fl", F_MULTI}, {"sub", sub2}}});
	json opts = json::array({{{"n", "alpha"}, {"t", "int"}, {"d", 0}},
				 {{"n", "s"}, {"t", "str"}, {"d", "x"}},
				 {{"n", "l"}, {"t", "int"}, {"fl", F_LIST}},
				 {{"n", "sl"}, {"t", "str"}, {"fl", F_LIST}},
				 {{"n", "ms"}, {"t", "sec"}, {"fl", F_MULTI}, {"sub", sub1}},
				 {{"n", "ts"}, {"t", "sec"}, {"fl", F_MULTI | F_TITLE}, {"sub", sub2}},
				 {{"n", "kv"}, {"t", "sec"}, {"fl", F_KEYSTRVAL}, {"sub", json::array()}},
				 {{"n", "fn"}, {"t", "func"}, {"fn", "sim"}},
				 {{"n", "include"}, {"t", "func"}, {"fn", "include"}}});
	plan["schemas"] = json::array({{{"opts", opts}}});
	int shape = (int)(idx % 14);
	static const long sizes_q[] = {1, 10, 100, 1000, 5000};
	static const long sizes_t[] = {10, 1000, 10000, 100000, 1000000};
	// thorough: most shapes stay small, a few are huge (the stress plans are spread over all lanes now: their total cost
	// decides how many ordinary plans a time-bounded run gets to)
	static const int weights_t[] = {30, 30, 27, 12, 1};
	int pick = (int)r.below(100), sel = 0;
	while (sel < 4 && pick >= weights_t[sel])
		pick -= weights_t[sel++];
	long n = tier ? sizes_t[sel] : sizes_q[r.below(5)];
	int flags = 0;
	std::string t;
	std::string shape_name;
	bool want_path = false;
	json fs = json::array({{{"path", "/c02/dir"}, {"kind", "dir"}}, fs_file("/c02/empty", ""), fs_file("/c02/self.conf", "include(\"/c02/self.conf\")\n"),
			       {{"path", "/c02/noperm"}, {"kind", "noperm"}}, {{"path", "/c02"}, {"kind", "dir"}}, {{"path", "/"}, {"kind", "dir"}},
			       {{"path", "/c02/dirlink"}, {"kind", "link"}, {"to", "/c02/dir"}}, {{"path", "/c02/looplink"}, {"kind", "link"}, {"to", "/c02/looplink"}}});
	std::string route = "buf";
	switch (shape) {
	case 0:
		shape_name = "deep_unknown_sections";
		flags = F_IGNORE_UNKNOWN;
		n = std::min<long>(n, tier ? 100000 : 1000);
		for (long i = 0; i < n; i++)
			t += "u {";
		for (long i = 0; i < n; i++)
			t += "}";
		break;
	case 1:
		shape_name = "deep_unknown_unclosed";
		flags = F_IGNORE_UNKNOWN;
		n = std::min<long>(n, tier ? 100000 : 1000);
		for (long i = 0; i < n; i++)
			t += "u t {\n";
		break;
	case 2:
		shape_name = "many_known_sections";
		n = std::min<long>(n, 100000);
		for (long i = 0; i < n; i++)
			t += "ms { k = 1 in { x = 2 } }\n";
		break;
	case 3:
		shape_name = "many_titled_sections";
		n = std::min<long>(n, 20000);
		for (long i = 0; i < n; i++)
			t += "ts t" + std::to_string(i % 50) + " { x = 2 }\n";
		break;
	case 4:
		shape_name = "huge_string_token";
		t = "s = \"" + std::string((size_t)n, 'a') + "\"\n";
		break;
	case 5:
		shape_name = "huge_unquoted_token";
		t = "s = " + std::string((size_t)n, 'b') + "\nzzz" + std::string((size_t)n, 'c') + " = 1\n";
		break;
	case 6:
		shape_name = "long_list";
		n = std::min<long>(n, 20000); // the value array grows one slot at a time: quadratic
		t = "l = {";
		for (long i = 0; i < n; i++)
			t += std::to_string(i) + ",";
		t += "1}\nsl = {";
		for (long i = 0; i < n; i++)
			t += "e,";
		t += "e}\n";
		break;
	case 7: {
		shape_name = "unterminated_construct";
		static const char *u[] = {"s = \"abc", "s = 'abc", "alpha = 1 /* c", "s = \"abc\\", "s = 'abc\\", "l = {1, 2", "ms {", "fn(a,", "fn(", "ts t", "alpha =", "alpha", "l +=",
					  "ms { in {", "s = ${X", "s = \"${X", "kv { k1 =", "#", "//", "/*", "/**", "##", "s = \"\\x", "s = \"\\1", "include(", "include(\"/c02/empty\""};
		t = u[r.below(sizeof(u) / sizeof(u[0]))];
		flags = r.chance(1, 2) ? F_COMMENTS : 0;
		break;
	}
	case 8:
		shape_name = "special_path_toplevel";
		route = "file";
		break;
	case 9: {
		shape_name = "special_include_target";
		// (the account database below makes "~", "~/" and "~root" name a directory)
		static const char *targets[] = {"/c02/dir", "/c02/empty", "/c02/self.conf", "/c02/noperm", "/c02/missing", "", "~nouser/x", "/", "~", "~/", "~root", "~root/", "~/empty", "empty", "dir", "self.conf", "/c02/dirlink", "dirlink", "/c02/looplink"};
		t = std::string("alpha = 2\ninclude(\"") + targets[r.below(19)] + "\")\nalpha = 3\n";
		want_path = r.chance(1, 2); // relative names: through a search path whose directory is written with or without a trailing slash
		break;
	}
	case 10: {
		shape_name = "hostile_option_paths";
		static const char *names[] = {"\"=\"", "\"|\"", "\"a|\"", "\"|a\"", "\"ms=\"", "\"ms='\"", "\"ms='x\\\\\"", "\"ms=0|\"", "\"ms=0|k\"", "\"ms=99|k\"", "\"ts='t'|x\"", "\"ts=t|x|\"",
					      "\"ms||k\"", "\"ms=0=1|k\"", "\"kv|new\"", "\"ts=\"", "'ms=\\'|k'", "\"alpha|x\"", "\"ms=-1|k\"", "\"ms=0x0|k\"", "\"ms= 0|k\""};
		flags = r.chance(1, 3) ? F_IGNORE_UNKNOWN : 0;
		t = "ms { k = 1 }\nts t { }\n";
		int m = (int)r.range(1, 3);
		for (int i = 0; i < m; i++)
			t += std::string(names[r.below(sizeof(names) / sizeof(names[0]))]) + " = 1\n";
		break;
	}
	case 11:
		shape_name = "many_freeform_keys";
		n = std::min<long>(n, 3000); // every new key is checked against all earlier ones: quadratic
		t = "kv {\n";
		for (long i = 0; i < n; i++)
			t += "key" + std::to_string(i) + " = v\n";
		t += "}\n";
		break;
	case 12:
		shape_name = "many_function_args";
		n = std::min<long>(n, 100000);
		t = "fn(";
		for (long i = 0; i < n; i++)
			t += "a,";
		t += "z)\n";
		break;
	default:
		shape_name = "comment_storm";
		flags = F_COMMENTS;
		n = std::min<long>(n, 20000);
		for (long i = 0; i < n; i++)
			t += (i % 3 == 0) ? "#\n" : (i % 3 == 1) ? "/**/" : "//x\n";
		t += "alpha = 1\n";
		break;
	}
	plan["world"] = {{"fs", fs}, {"env", {{"X", "1"}}}, {"passwd", json::array({{{"name", "root"}, {"uid", 0}, {"dir", "/c02"}}})}, {"euid", 0}};
	plan["knobs"] = {{"tty", r.chance(1, 6)}, {"fill", 0xA5}};
	json steps = json::array();
	json init = step(0, "init", 0);
	init["flags"] = flags;
	steps.push_back(init);
	if (want_path) {
		json a = step(0, "addpath", 0);
		a["dir"] = r.chance(1, 2) ? "/c02/" : (r.chance(1, 2) ? "/c02" : "/c02//");
		steps.push_back(a);
	}
	if (route == "file") {
		static const char *paths[] = {"/c02/dir", "/c02/empty", "/c02/missing", "/c02/noperm", "", "~", "~nouser", "/", "/c02/dirlink", "/c02/looplink", "~/dirlink"};
		std::string path = paths[r.below(11)];
		if (r.chance(1, 3)) {
			json a = step(0, "addpath", 0);
			a["dir"] = r.chance(1, 2) ? "/c02" : "/c02/";
			steps.push_back(a);
			if (r.chance(1, 2))
				path = r.chance(1, 2) ? "dir" : "empty";
		}
		steps.push_back(parse_file_step(0, 0, path));
	} else {
		json p = parse_step(0, 0, r.chance(1, 3) ? "fp" : "buf", t);
		steps.push_back(p);
	}
	plan["steps"] = steps;
	plan["params"] = {{"shape", shape_name}, {"size", n}};
	return plan;
}

json damaged_plan(Rng &r, int tier)
{
	(void)tier;
	json plan;
	SchemaGen sg;
	sg.funcs = true;
	sg.include = true;
	sg.ptrs = r.chance(1, 3);
	sg.pcb = r.chance(1, 3);
	sg.vcb = r.chance(1, 4);
	sg.keystrval = true;
	sg.simple = true;
	sg.max_opts = 6;
	json schema = gen_schema(r, sg);
	plan["schemas"] = json::array({schema});
	int flags = (r.chance(1, 2) ? F_COMMENTS : 0) | (r.chance(1, 3) ? F_IGNORE_UNKNOWN : 0) | (r.chance(1, 6) ? F_NOCASE : 0);
	TextGen tg;
	tg.max_items = 6;
	tg.ctx_flags = flags;
	tg.comments = (int)r.below(3);
	tg.include_targets = {"/c02/inc.conf", "/c02/dir", "/c02/missing", "/c02/self.conf", "/c02/chain0.conf", "/c02/chain2.conf"};
	std::string valid = chunks_text(gen_text(r, schema["opts"], tg));
	json meta = json::array();
	std::string bad = damage(r, valid, meta);
	// route
	unsigned route = (unsigned)r.below(4);
	json fs = json::array({{{"path", "/c02/dir"}, {"kind", "dir"}}, fs_file("/c02/inc.conf", "# included\n"), fs_file("/c02/self.conf", "include(\"/c02/self.conf\")\n")});
	// a chain that is exactly as deep as the include stack when entered at chain2, and two deeper from chain0
	for (int k = 0; k < 12; k++)
		fs.push_back(fs_file("/c02/chain" + std::to_string(k) + ".conf", k < 11 ? "include(\"/c02/chain" + std::to_string(k + 1) + ".conf\")\n" : "# leaf\n"));
	json steps = json::array();
	json init = step(0, "init", 0);
	init["flags"] = flags;
	steps.push_back(init);
	if (r.chance(1, 4)) {
		json a = step(0, "addpath", 0);
		a["dir"] = "/c02";
		steps.push_back(a);
	}
	if (route == 0)
		steps.push_back(parse_step(0, 0, "buf", bad));
	else if (route == 1) {
		json p = parse_step(0, 0, "fp", bad);
		p["src"]["chunk"] = (size_t)r.below(8);
		steps.push_back(p);
	} else if (route == 2) {
		fs.push_back(fs_file("/c02/main.conf", bad));
		steps.push_back(parse_file_step(0, 0, "/c02/main.conf"));
	} else {
		// delivered through an include: the declared schema has include() at top level
		fs.push_back(fs_file("/c02/damaged.conf", bad));
		steps.push_back(parse_step(0, 0, "buf", "include(\"/c02/damaged.conf\")\n"));
	}
	plan["world"] = {{"fs", fs}, {"env", {{"X", "1"}, {"HOME", "/home/u"}}}};
	plan["knobs"] = {{"tty", r.chance(1, 6)}, {"fill", r.chance(1, 2) ? 0xA5 : 0}, {"recycle", r.chance(1, 2)}};
	// afterwards: still usable
	steps.push_back(step(0, "print", 0));
	TextGen tg2;
	tg2.max_items = 3;
	tg2.ctx_flags = flags;
	std::vector<Chunk> again = gen_text(r, schema["opts"], tg2);
	std::vector<Chunk> again2;
	for (auto &c : again)
		if (c.t.find("include") == std::string::npos)
			again2.push_back(c);
	json p2 = step(0, "parse", 0);
	p2["src"] = {{"kind", "buf"}, {"chunks", chunks_to_json(again2)}};
	steps.push_back(p2);
	plan["steps"] = steps;
	plan["params"] = {{"shape", "damaged"}, {"damage", meta}, {"route", route}};
	return plan;
}

json generate(uint64_t seed, uint64_t idx, int tier)
{
	Rng r(seed);
	// one plan in 16 is a stress shape; which ones is decided by a hash of the index, so that the (slow) stress plans are
	// spread over all worker lanes instead of landing on the one lane that serves idx = 15 mod 16
	uint64_t h = fnv64(std::to_string(idx));
	json plan = (h % 16 == 15) ? stress_plan(r, tier, h / 16) : damaged_plan(r, tier);
	// recovery probe: fresh context, fixed valid text (every plan's schema may lack 'alpha': the probe's outcome is
	// compared with the same probe in a fresh image, not predicted)
	int pc = 7;
	json pi = step(0, "init", pc);
	pi["probe"] = 1;
	plan["steps"].push_back(pi);
	json pp = parse_step(0, pc, "buf", PROBE_TEXT);
	pp["probe"] = 1;
	plan["steps"].push_back(pp);
	return plan;
}

JudgeOut judge(const json &plan)
{
	JudgeOut out;
	RunResult r = execute(plan);
	add_exec_counters(out, r);
	std::string shape = plan.contains("params") ? plan["params"].value("shape", std::string("?")) : "?";
	out.k.add("shape." + shape);
	if (plan.contains("params") && plan["params"].contains("damage"))
		for (auto &d : plan["params"]["damage"]) {
			std::string k = d.get<std::string>();
			out.k.add("fault." + k.substr(0, k.find('@')) + ".fired");
		}
	out.distinct.push_back(plan_fingerprint(plan));
	death_and_stdout(r, "", out.viol);
	for (auto &o : r.ops) {
		if (o.op == "parse" && !o.skipped && o.death == D_NONE) {
			if (o.ret != 0 && o.ret != 1 && o.ret != -1)
				out.viol.push_back({"retcode:" + std::to_string(o.ret), "parse returned " + std::to_string(o.ret), nullptr});
			if (o.ret != 0)
				out.k.add("probe.rejected_parse");
			else
				out.k.add("accepted_parse");
			if (!o.diags.empty() && o.diags[0].file.compare(0, 5, "/c02/") == 0)
				out.k.add("probe.error_in_file_or_include");
		}
	}
	for (auto &c : r.conservation)
		if (c.compare(0, 13, "include-stack") == 0)
			out.viol.push_back({"include-stack", "after the run: " + c, nullptr});
	// uninitialised memory: the whole history must not depend on what fresh heap memory contains (every 4th plan)
	if (!r.died && out.viol.empty() && plan_fingerprint(plan) % 4 == 0) {
		for (int fill : {0x00, 0xFF}) {
			ExecOpts eo;
			eo.fill_override = fill;
			RunResult fr = execute(plan, eo);
			add_exec_counters(out, fr);
			out.k.add("fault.fill_byte.fired");
			if (fr.hash != r.hash) {
				// find the first differing step
				std::string where = "?";
				for (size_t i = 0; i < r.ops.size() && i < fr.ops.size(); i++)
					if (r.ops[i].line() != fr.ops[i].line() || r.ops[i].dump != fr.ops[i].dump) {
						where = "#" + std::to_string(r.ops[i].index) + " " + r.ops[i].op;
						break;
					}
				out.viol.push_back({"O-fill", "the recorded history changes (first at step " + where + ") when fresh heap memory is filled with byte " + std::to_string(fill) + " instead of the plan's fill byte: a result depends on uninitialised memory", nullptr});
				break;
			}
		}
	}
	// recovery: the probe into a fresh context equals the probe alone in a fresh image
	if (!r.died) {
		long pi = -1, pp = -1;
		for (size_t i = 0; i < plan["steps"].size(); i++) {
			const json &st = plan["steps"][i];
			if (!st.value("probe", 0))
				continue;
			if (st["op"] == "init")
				pi = (long)i;
			else if (st["op"] == "parse" && pi >= 0)
				pp = (long)i;
		}
		if (pp >= 0) {
			json solo = plan;
			solo["steps"] = json::array({plan["steps"][pi], plan["steps"][pp]});
			RunResult fr = execute(solo);
			add_exec_counters(out, fr);
			const OpResult *bp = nullptr;
			for (auto &o : r.ops)
				if (o.index == (int)pp)
					bp = &o;
			if (bp && fr.ops.size() >= 2 && outcome(*bp) != outcome(fr.ops[1]))
				out.viol.push_back({"recovery", "after the hostile input a fresh context parses the probe differently than in a fresh process image\n  after: " + outcome(*bp).substr(0, 500) +
									"\n  fresh: " + outcome(fr.ops[1]).substr(0, 500),
						    nullptr});
		}
	}
	return out;
}

Property P = [] {
	Property p;
	p.id = "C02";
	p.level = "exploration";
	p.rule = "15 of 16 runs: seeded schema (all option kinds, function options, include, free-form sections, annotations / ignore-unknown / nocase on or off) and a rendered valid "
		 "text damaged by 1-3 storage faults (cut, flipped byte 0..255, duplicated / zeroed / deleted block, spliced meta token, tail garbage), delivered by buffer, stream "
		 "(chunked), file or include; 1 of 16: stress shapes (10^0..10^5 nested unknown sections, 10^5 known sections, tokens up to 1 MiB, 10^5 list elements / function "
		 "arguments / free-form keys, every unterminated construct, directory / empty / unreadable / missing / self-including targets as top-level path and as include target, "
		 "hostile option-name paths, comment storms); distinct = distinct plans";
	p.assumptions = {"damage is seeded, not coverage-guided (libFuzzer is a different technique family and is not used)",
			 "read errors in the middle of a regular stream (EIO/EINTR) are not injected: no listed property obliges the library to survive them (DESIGN section 5)",
			 "uninitialised-memory use is observed through ASan/UBSan and, for every 4th plan, a differential over the allocator fill byte (0x00 / 0xFF vs the plan's), not MSan"};
	p.probes = {"rejected_parse", "error_in_file_or_include"};
	p.components = {{"confuse.c", "real"}, {"lexer.l (flex 2.6.4 generated)", "real"}, {"glibc stdio", "real"}, {"file namespace / streams", "stub"}, {"exit/abort/assert", "stub: recorded"},
			{"stdout", "stub: fd 1 redirected to a memfd"}};
	p.quick_seconds = 25;
	p.thorough_seconds = 600;
	p.generate = generate;
	p.judge = judge;
	return p;
}();
Registrar reg(&P);

} // namespace
} // namespace sim
