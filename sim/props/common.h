// Helpers shared by the property modules.
#pragma once
#include "../exec.h"
#include "../gen.h"
#include "../prop.h"
#include "../rng.h"

namespace sim {

inline json J(const std::string &raw) { return to_json_bytes(raw); }

inline json step(int cl, const std::string &op, int ctx)
{
	json s;
	s["cl"] = cl;
	s["op"] = op;
	s["c"] = ctx;
	return s;
}

inline json parse_step(int cl, int ctx, const std::string &kind, const std::string &text)
{
	json s = step(cl, "parse", ctx);
	s["src"] = {{"kind", kind}, {"text", J(text)}};
	return s;
}

inline json parse_file_step(int cl, int ctx, const std::string &path)
{
	json s = step(cl, "parse", ctx);
	s["src"] = {{"kind", "file"}, {"path", path}};
	return s;
}

inline json fs_file(const std::string &path, const std::string &text)
{
	return {{"path", path}, {"kind", "file"}, {"text", J(text)}};
}

inline std::string diag_str(const OpResult &o)
{
	std::string s;
	for (auto &d : o.diags)
		s += d.file + ":" + std::to_string(d.line) + ":" + esc(d.msg) + ",";
	return s;
}

// outcome of one op as the differential oracles compare it
inline std::string outcome(const OpResult &o)
{
	if (o.skipped)
		return "skipped";
	std::string s = "ret=" + std::to_string(o.ret);
	if (o.has_sres)
		s += " sres=" + esc(o.sres);
	s += " diags=" + diag_str(o) + "\n" + o.dump;
	return s;
}

inline void add_exec_counters(JudgeOut &out, const RunResult &r)
{
	out.evals++;
	out.k.add("step.api_calls", r.api_calls);
	out.k.add("step.allocations", r.allocs_u1 + r.allocs_u2);
	out.k.add("step.stream_reads", r.reads);
	out.k.add("step.callback_invocations", r.cb_invocations);
	if (r.files_recycled)
		out.k.add("fault.file_address_reuse.fired", r.files_recycled);
	out.hash = fnv64(std::to_string(r.hash), out.hash ? out.hash : 1469598103934665603ULL);
	for (auto &o : r.ops)
		if (!o.dump.empty())
			out.states.push_back(fnv64(o.dump));
}

// interleaving fingerprint of a plan with more than one client
inline void note_schedule(JudgeOut &out, const json &plan)
{
	std::string sched;
	bool multi = false;
	for (auto &st : plan["steps"]) {
		int cl = st.value("cl", 0);
		if (cl != 0)
			multi = true;
		sched += std::to_string(cl) + ":" + st["op"].get<std::string>() + ",";
	}
	if (multi)
		out.schedules.push_back(fnv64(sched));
}

inline std::string death_name(DeathKind d)
{
	switch (d) {
	case D_EXIT: return "exit";
	case D_ABORT: return "abort";
	case D_ASSERT: return "assert";
	case D_BUDGET_ALLOC: return "hang-alloc-budget";
	case D_BUDGET_READ: return "hang-read-budget";
	case D_BUDGET_CB: return "hang-callback-budget";
	default: return "none";
	}
}

// S8 events and stdout bytes of a run, as violations of the property being checked
inline void death_and_stdout(const RunResult &r, const std::string &ctx, std::vector<Violation> &v)
{
	for (auto &o : r.ops) {
		if (o.death != D_NONE)
			v.push_back({"death:" + death_name(o.death) + ":" + o.op + (ctx.empty() ? "" : ":" + ctx),
				     "library call '" + o.op + "' (#" + std::to_string(o.index) + ") did not return: " + death_name(o.death) + " " + o.death_info, nullptr});
		if (!o.out.empty())
			v.push_back({"stdout:" + o.op + (ctx.empty() ? "" : ":" + ctx),
				     "library wrote to stdout during '" + o.op + "' (#" + std::to_string(o.index) + "): \"" + esc(o.out) + "\"", nullptr});
		if (o.stdin_read)
			v.push_back({"stdin:" + o.op + (ctx.empty() ? "" : ":" + ctx),
				     "library read from the process's standard input during '" + o.op + "' (#" + std::to_string(o.index) + "): a real process blocks there (the scanner lost its input and fell back to stdin)", nullptr});
	}
}

} // namespace sim
