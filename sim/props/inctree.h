// Splitting a rendered text into a tree of include files in the simulated file system (shared by C13 and C06).
#pragma once
#include "common.h"

namespace sim {

struct Tree {
	std::map<std::string, std::vector<Chunk>> files;
	std::map<std::string, int> nest; // file -> number of include levels below and including it
	int counter = 0;
	int mode = 0; // 0 absolute names, 1 relative through the search path, 2 tilde
	int max_depth_reached = 0;
};

inline std::string target_name(const Tree &t, const std::string &base)
{
	if (t.mode == 1)
		return base;
	if (t.mode == 2)
		return "~/" + base;
	return "/t/" + base;
}

inline Chunk include_chunk(Rng &r, const std::string &name, const std::string &resolved = "")
{
	Chunk c;
	c.inc = resolved;
	size_t s0 = 0;
	c.t = "include";
	c.toks.push_back(Tok{s0, c.t.size(), "n", "func", 0, false, false});
	if (r.chance(1, 3))
		c.t += " ";
	size_t p = c.t.size();
	c.t += "(";
	c.toks.push_back(Tok{p, p + 1, "p", "fopen", 0, false, false});
	p = c.t.size();
	c.t += "\"" + name + "\"";
	c.toks.push_back(Tok{p, c.t.size(), "a", "str", 0, false, false});
	p = c.t.size();
	c.t += ")";
	c.toks.push_back(Tok{p, p + 1, "p", "fclose", 0, false, false});
	c.t += "\n";
	return c;
}

inline std::vector<Chunk> split(Rng &r, Tree &t, const std::vector<Chunk> &cs, int depth, int maxdepth)
{
	if (cs.empty() || depth >= maxdepth || !r.chance(3, 4))
		return cs;
	size_t i = r.below(cs.size()), j = i + 1 + r.below(cs.size() - i);
	std::vector<Chunk> sub(cs.begin() + i, cs.begin() + j);
	std::string base = "f" + std::to_string(t.counter++) + ".conf";
	std::vector<Chunk> inner = split(r, t, sub, depth + 1, maxdepth);
	int below = 0;
	for (auto &c : inner)
		if (!c.inc.empty())
			below = std::max(below, t.nest[c.inc]);
	if (below + 1 > maxdepth)
		return cs; // would nest deeper than this plan allows
	t.nest["/t/" + base] = below + 1;
	if (below + 1 > t.max_depth_reached)
		t.max_depth_reached = below + 1;
	t.files["/t/" + base] = inner;
	std::vector<Chunk> out(cs.begin(), cs.begin() + i);
	out.push_back(include_chunk(r, target_name(t, base), "/t/" + base));
	out.insert(out.end(), cs.begin() + j, cs.end());
	// maybe split the remainder as well
	if (r.chance(1, 3))
		return split(r, t, out, depth, maxdepth);
	return out;
}

inline json world_of(const Tree &t)
{
	json fs = json::array();
	for (auto &kv : t.files)
		fs.push_back({{"path", kv.first}, {"kind", "file"}, {"chunks", chunks_to_json(kv.second)}});
	fs.push_back({{"path", "/t"}, {"kind", "dir"}});
	fs.push_back({{"path", "/t/adir"}, {"kind", "dir"}});
	fs.push_back({{"path", "/t/noperm.conf"}, {"kind", "noperm"}});
	fs.push_back(fs_file("/t/good.conf", "# good\n"));
	json w;
	w["fs"] = fs;
	w["passwd"] = json::array({{{"name", "u"}, {"uid", 1000}, {"dir", "/t"}}});
	w["euid"] = 1000;
	w["env"] = {{"X", "1"}};
	return w;
}


} // namespace sim
