// Splitting a rendered text into a tree of include files in the simulated file system (shared by C13 and C06).
#pragma once
#include "common.h"

namespace sim {

struct Tree {
	std::map<std::string, std::vector<Chunk>> files;
	std::map<std::string, int> nest; // file -> number of include levels below and including it
	int counter = 0;
	int mode = 0; // 0 absolute names, 1 relative through the search path, 2 tilde
	int max_depth_reached = 0;
};

inline std::string target_name(const Tree &t, const std::string &base)
{
	if (t.mode == 1)
		return base;
	if (t.mode == 2)
		return "~/" + base;
	return "/t/" + base;
}

inline Chunk include_chunk(Rng &r, const std::string &name, const std::string &resolved = "")
{
	Chunk c;
	c.inc = resolved;
	size_t s0 = 0;
	c.t = "include";
	c.toks.push_back(Tok{s0, c.t.size(), "n", "func", 0, false, false});
	if (r.chance(1, 3))
		c.t += " ";
	size_t p = c.t.size();
	c.t += "(";
	c.toks.push_back(Tok{p, p + 1, "p", "fopen", 0, false, false});
	p = c.t.size();
	c.t += "\"" + name + "\"";
	c.toks.push_back(Tok{p, c.t.size(), "a", "str", 0, false, false});
	p = c.t.size();
	c.t += ")";
	c.toks.push_back(Tok{p, p + 1, "p", "fclose", 0, false, false});
	c.t += "\n";
	return c;
}

inline std::vector<Chunk> split(Rng &r, Tree &t, const std::vector<Chunk> &cs, int depth, int maxdepth)
{
	if (cs.empty() || depth >= maxdepth || !r.chance(3, 4))
		return cs;
	size_t i = r.below(cs.size()), j = i + 1 + r.below(cs.size() - i);
	std::vector<Chunk> sub(cs.begin() + i, cs.begin() + j);
	std::string base = "f" + std::to_string(t.counter++) + ".conf";
	std::vector<Chunk> inner = split(r, t, sub, depth + 1, maxdepth);
	int below = 0;
	for (auto &c : inner)
		if (!c.inc.empty())
			below = std::max(below, t.nest[c.inc]);
	if (below + 1 > maxdepth)
		return cs; // would nest deeper than this plan allows
	t.nest["/t/" + base] = below + 1;
	if (below + 1 > t.max_depth_reached)
		t.max_depth_reached = below + 1;
	t.files["/t/" + base] = inner;
	std::vector<Chunk> out(cs.begin(), cs.begin() + i);
	out.push_back(include_chunk(r, target_name(t, base), "/t/" + base));
	out.insert(out.end(), cs.begin() + j, cs.end());
	// maybe split the remainder as well
	if (r.chance(1, 3))
		return split(r, t, out, depth, maxdepth);
	return out;
}

// Moves the body of a top-level section item into a file and replaces it by an include statement
// (include inside a section body).  Only when the section's declaration lists include().
inline bool split_section_body(Rng &r, Tree &t, Chunk &c, const json &schema_opts)
{
	if (c.toks.empty() || c.toks[0].role != "n" || c.toks[0].vt != "sec" || !c.inc.empty() || !c.incs.empty())
		return false;
	const json *decl = nullptr;
	for (auto &o : schema_opts)
		if (o["n"].get<std::string>() == c.toks[0].opt)
			decl = &o;
	if (!decl || !decl->contains("sub"))
		return false;
	bool has_inc = false;
	for (auto &o : (*decl)["sub"])
		if (o.value("fn", std::string()) == "include")
			has_inc = true;
	if (!has_inc)
		return false;
	long open_i = -1, close_i = -1;
	for (size_t i = 0; i < c.toks.size(); i++) {
		if (c.toks[i].role == "p" && c.toks[i].vt == "secopen" && c.toks[i].depth == 0 && open_i < 0)
			open_i = (long)i;
		if (c.toks[i].role == "p" && c.toks[i].vt == "secclose" && c.toks[i].depth == 0)
			close_i = (long)i;
	}
	if (open_i < 0 || close_i <= open_i + 1)
		return false; // empty body
	size_t bs = c.toks[open_i].e, be = c.toks[close_i].s;
	Chunk body;
	body.t = c.t.substr(bs, be - bs) + "\n";
	for (long i = open_i + 1; i < close_i; i++) {
		Tok k = c.toks[i];
		k.s -= bs;
		k.e -= bs;
		k.depth -= 1;
		body.toks.push_back(k);
	}
	std::string base = "body" + std::to_string(t.counter++) + ".conf";
	t.files["/t/" + base] = {body};
	t.nest["/t/" + base] = 1;
	std::string stmt = " include(\"" + target_name(t, base) + "\")\n";
	Chunk n;
	n.t = c.t.substr(0, bs) + stmt + c.t.substr(be);
	for (long i = 0; i <= open_i; i++)
		n.toks.push_back(c.toks[i]);
	long shift = (long)stmt.size() - (long)(be - bs);
	for (size_t i = (size_t)close_i; i < c.toks.size(); i++) {
		Tok k = c.toks[i];
		k.s = (size_t)((long)k.s + shift);
		k.e = (size_t)((long)k.e + shift);
		n.toks.push_back(k);
	}
	n.incs.push_back({bs, bs + stmt.size(), "/t/" + base});
	n.faulty = c.faulty;
	c = n;
	(void)r;
	return true;
}

inline json world_of(const Tree &t)
{
	json fs = json::array();
	for (auto &kv : t.files)
		fs.push_back({{"path", kv.first}, {"kind", "file"}, {"chunks", chunks_to_json(kv.second)}});
	fs.push_back({{"path", "/t"}, {"kind", "dir"}});
	fs.push_back({{"path", "/t/adir"}, {"kind", "dir"}});
	fs.push_back({{"path", "/t/noperm.conf"}, {"kind", "noperm"}});
	fs.push_back(fs_file("/t/good.conf", "# good\n"));
	fs.push_back(fs_file("nonexistent.conf", "# in the working directory, which is not a search directory\n"));
	fs.push_back({{"path", "/t/sub"}, {"kind", "dir"}});
	fs.push_back(fs_file("/t/sub/good.conf", "# good too\n"));
	json w;
	w["fs"] = fs;
	w["passwd"] = json::array({{{"name", "u"}, {"uid", 1000}, {"dir", "/t"}}});
	w["euid"] = 1000;
	w["env"] = {{"X", "1"}};
	return w;
}


} // namespace sim
