// C18 — running out of memory yields an error return, not corruption.
// For each workload: baseline run counts the allocation requests issued by confuse.c per step; then for
// every step and every k the workload is re-run with the k-th request of that step failing (exhaustive over k).
#include "common.h"

namespace sim {
namespace {

json schema18()
{
	json inner = json::array({{{"n", "k"}, {"t", "int"}, {"d", 0}},
				  {{"n", "v"}, {"t", "str"}, {"d", "x"}},
				  {{"n", "il"}, {"t", "int"}, {"fl", F_LIST}, {"dp", "{4, 5}"}},
				  {{"n", "deep"}, {"t", "sec"}, {"fl", F_MULTI}, {"sub", json::array({{{"n", "z"}, {"t", "str"}, {"d", "zz"}}})}}});
	json kv = json::array({{{"n", "known"}, {"t", "str"}, {"d", "kd"}}});
	json opts = json::array({
		{{"n", "a"}, {"t", "int"}, {"d", 1}},
		{{"n", "f"}, {"t", "float"}, {"d", 0.25}},
		{{"n", "b"}, {"t", "bool"}, {"d", true}},
		{{"n", "s"}, {"t", "str"}, {"d", "dflt"}},
		{{"n", "sn"}, {"t", "str"}},
		{{"n", "nd"}, {"t", "int"}, {"fl", F_NODEFAULT}},
		{{"n", "l"}, {"t", "int"}, {"fl", F_LIST}, {"dp", "{1, 2}"}},
		{{"n", "sl"}, {"t", "str"}, {"fl", F_LIST}, {"dp", "{\"p\", q}"}},
		{{"n", "fl"}, {"t", "float"}, {"fl", F_LIST}},
		{{"n", "ms"}, {"t", "sec"}, {"fl", F_MULTI | F_TITLE}, {"sub", inner}},
		{{"n", "one"}, {"t", "sec"}, {"sub", inner}},
		{{"n", "kv"}, {"t", "sec"}, {"fl", F_KEYSTRVAL}, {"sub", kv}},
		{{"n", "p"}, {"t", "ptr"}, {"pcb", 1}, {"fcb", 1}},
		{{"n", "pl"}, {"t", "ptr"}, {"fl", F_LIST}, {"pcb", 1}, {"fcb", 1}, {"dp", "{d1, d2}"}},
		{{"n", "ci"}, {"t", "int"}, {"d", 2}, {"pcb", 1}, {"vcb", 1}},
		{{"n", "fn"}, {"t", "func"}, {"fn", "sim"}},
		{{"n", "include"}, {"t", "func"}, {"fn", "include"}},
	});
	return {{"opts", opts}};
}

json world18()
{
	json w;
	w["fs"] = json::array({fs_file("/etc/app/inc.conf", "a = 5\nms \"fromfile\" { k = 9 }\n"), fs_file("/home/u/h.conf", "b = off\n"),
			       {{"path", "/etc/app"}, {"kind", "dir"}}, fs_file("/etc/app/main.conf", "s = \"m\"\ninclude(\"inc.conf\")\nl += {3}\n")});
	w["passwd"] = json::array({{{"name", "u"}, {"uid", 1000}, {"dir", "/home/u"}}});
	w["euid"] = 1000;
	w["env"] = {{"X", "ex"}};
	return w;
}

const char *PROBE = "a = 3\nsl = {x, \"y\"}\nms \"p\" { k = 1 }\n";

void add_tail(json &steps, int ctx, int &next_ctx)
{
	// after the workload: query, print, free; then recovery probe in a fresh context
	steps.push_back(step(0, "dump", ctx));
	json g = step(0, "getters", ctx);
	g["name"] = "ms=t1|k";
	steps.push_back(g);
	steps.push_back(step(0, "print", ctx));
	steps.push_back(step(0, "free", ctx));
	int pc = next_ctx++;
	json pi = step(0, "init", pc);
	pi["probe"] = 1;
	steps.push_back(pi);
	json pp = parse_step(0, pc, "buf", PROBE);
	pp["probe"] = 1;
	steps.push_back(pp);
}

json named(const std::string &op, int ctx, const std::string &name)
{
	json s = step(0, op, ctx);
	s["name"] = name;
	return s;
}

const int NFIXED = 9;

json fixed_workload(int w)
{
	json plan;
	plan["schemas"] = json::array({schema18()});
	plan["world"] = world18();
	plan["knobs"] = {{"fill", 0xA5}};
	json steps = json::array();
	int next_ctx = 1;
	json init = step(0, "init", 0);
	switch (w) {
	case 0: // initialisation alone, with annotations flag
		init["flags"] = F_COMMENTS;
		steps.push_back(init);
		break;
	case 1: // parse from a buffer: every construct
		init["flags"] = F_COMMENTS;
		steps.push_back(init);
		steps.push_back(parse_step(0, 0, "buf",
					   "# note\na = 0x10\nf = 1.5 b = no\ns = \"str ${X}\"\n/* c */ l += {3, 4}\nsl = {'a', \"b\", c}\nfl = 1.5\n"
					   "ms \"t1\" { k = 2 v = 'w' il += 6 deep { z = \"1\" } deep { } }\nms t2 { }\nms \"t1\" { k = 3 }\n"
					   "one { k = 7 deep { z = q } }\nkv { k1 = v1 user.name = \"x y\" known = \"kk\" k1 = again }\n"
					   "p = obj pl = {o1, o2} pl += o3\nci = 42\nfn(a, \"b\", 'c')\nfn()\nnd = 3\n"));
		break;
	case 2: // search path, tilde, parse of a file with an include found through the path
		steps.push_back(init);
		{
			json a1 = step(0, "addpath", 0);
			a1["dir"] = "/nonexistent";
			steps.push_back(a1);
			json a2 = step(0, "addpath", 0);
			a2["dir"] = "/etc/app";
			steps.push_back(a2);
			json a3 = step(0, "addpath", 0);
			a3["dir"] = "~u";
			steps.push_back(a3);
			steps.push_back(named("searchpath", 0, "inc.conf"));
			steps.push_back(named("searchpath", 0, "/etc/app/inc.conf"));
			steps.push_back(named("searchpath", 0, "missing.conf"));
			steps.push_back(parse_file_step(0, 0, "main.conf"));
			steps.push_back(parse_file_step(0, 0, "h.conf"));
		}
		break;
	case 3: { // scalar / indexed / text setters
		steps.push_back(init);
		auto setv = [&](const std::string &op, const std::string &name, json v, unsigned idx) {
			json s = named(op, 0, name);
			s["v"] = v;
			s["idx"] = idx;
			steps.push_back(s);
		};
		setv("setint", "a", 5, 0);
		setv("setfloat", "f", 2.5, 0);
		setv("setbool", "b", false, 0);
		setv("setstr", "s", "new", 0);
		setv("setstr", "sn", "was null", 0);
		setv("setstr", "s", nullptr, 0);
		setv("osetint", "nd", 9, 0);
		setv("osetstr", "s", "again", 0);
		setv("setint", "l", 7, 0);
		setv("setint", "l", 8, 5);
		setv("setstr", "sl", "e", 1);
		setv("setfloat", "fl", 1.0, 0);
		setv("osetfloat", "f", 0.5, 0);
		setv("osetbool", "b", true, 0);
		json so = named("setopt", 0, "a");
		so["v"] = "12";
		steps.push_back(so);
		json so2 = named("setopt", 0, "sl");
		so2["v"] = "appended";
		steps.push_back(so2);
		json so3 = named("setopt", 0, "p");
		so3["v"] = "ptrtext";
		steps.push_back(so3);
		json so4 = named("setopt", 0, "ci");
		so4["v"] = "cbtext";
		steps.push_back(so4);
		json sm = named("setmulti", 0, "l");
		sm["vals"] = json::array({"1", "2", "3"});
		steps.push_back(sm);
		json sm2 = named("setmulti", 0, "sl");
		sm2["vals"] = json::array({"x", "y"});
		sm2["byopt"] = true;
		steps.push_back(sm2);
		json sm3 = named("setmulti", 0, "l");
		sm3["vals"] = json::array({"1", "zz"});
		steps.push_back(sm3);
		json sm4 = named("setmulti", 0, "pl");
		sm4["vals"] = json::array({"n1", "n2"});
		steps.push_back(sm4);
		json sl = named("setlist", 0, "l");
		sl["vals"] = json::array({4, 5, 6});
		steps.push_back(sl);
		json al = named("addlist", 0, "l");
		al["vals"] = json::array({7});
		steps.push_back(al);
		json al2 = named("addlist", 0, "sl");
		al2["vals"] = json::array({"u", "v"});
		steps.push_back(al2);
		json sl2 = named("setlist", 0, "fl");
		sl2["vals"] = json::array({0.5, 1.5});
		steps.push_back(sl2);
		break;
	}
	case 4: { // sections: add, remove by title / index / path; annotation
		init["flags"] = F_COMMENTS;
		steps.push_back(init);
		auto addt = [&](const std::string &name, const std::string &title, json at) {
			json s = named("addtsec", 0, name);
			s["title"] = title;
			if (!at.is_null())
				s["at"] = at;
			steps.push_back(s);
		};
		addt("ms", "t1", nullptr);
		addt("ms", "t2", nullptr);
		addt("ms", "t3", nullptr);
		addt("ms", "t1", nullptr); // duplicate: refused
		json sk = named("setint", 0, "k");
		sk["at"] = json::array({json::array({"ms", 1})});
		sk["v"] = 4;
		sk["idx"] = 0;
		steps.push_back(sk);
		json sc = named("setcomment", 0, "a");
		sc["text"] = "annotation";
		steps.push_back(sc);
		json sc2 = named("setcomment", 0, "a");
		sc2["text"] = "replaced";
		steps.push_back(sc2);
		json rt = named("rmtsec", 0, "ms");
		rt["title"] = "t2";
		steps.push_back(rt);
		json rn = named("rmnsec", 0, "ms");
		rn["idx"] = 0;
		steps.push_back(rn);
		steps.push_back(named("rmsec", 0, "ms=t3"));
		steps.push_back(named("rmsec", 0, "ms=nope"));
		addt("ms", "t4", nullptr);
		break;
	}
	case 5: { // path lookups, callback registration by path, print callbacks
		steps.push_back(init);
		steps.push_back(parse_step(0, 0, "buf", "ms \"t1\" { k = 2 deep { z = a } }\nms \"t 2\" { }\n"));
		for (const char *p : {"ms=t1|k", "ms='t 2'|v", "ms=t1|deep=0|z", "one|il", "ms=zz|k", "ms|k", "one|nosuch", "=", "ms='t\\'x'|k"})
			steps.push_back(named("getters", 0, p));
		json si = named("setint", 0, "ms=t1|k");
		si["v"] = 11;
		si["idx"] = 0;
		steps.push_back(si);
		json ss = named("setstr", 0, "ms='t 2'|v");
		ss["v"] = "bypath";
		ss["idx"] = 0;
		steps.push_back(ss);
		steps.push_back(named("setvalidate", 0, "ms|k"));
		steps.push_back(named("setvalidate", 0, "one|deep|z"));
		steps.push_back(named("setvalidate2", 0, "a"));
		steps.push_back(named("setvalidate2", 0, "ms|v"));
		steps.push_back(named("setprintfunc", 0, "a"));
		steps.push_back(named("setprintfunc", 0, "ms=t1|k"));
		json sv = named("setint", 0, "a");
		sv["v"] = 3;
		sv["idx"] = 0;
		steps.push_back(sv);
		steps.push_back(parse_step(0, 0, "buf", "ms \"t9\" { k = 1 }\none { deep { z = v } }\n"));
		break;
	}
	case 6: { // tilde expansion and search path lookups without a context
		for (const char *n : {"~", "~/x", "~u", "~u/y", "~nouser/z", "plain", "", "/abs/path"}) {
			json t = step(0, "tilde", 0);
			t["name"] = n;
			steps.push_back(t);
		}
		steps.push_back(init);
		json a1 = step(0, "addpath", 0);
		a1["dir"] = "~/cfg";
		steps.push_back(a1);
		break;
	}
	case 7: // parse from a stream; save/load restart
		steps.push_back(init);
		steps.push_back(parse_step(0, 0, "fp", "a = 4\nl = {9}\nms \"r\" { k = 1 il = {} }\nkv { z9 = \"v\" }\n"));
		steps.push_back(step(0, "restart", 0));
		break;
	default: { // rejected parses: error paths allocate too (diagnostics, unwinding)
		init["flags"] = F_COMMENTS;
		steps.push_back(init);
		steps.push_back(parse_step(0, 0, "buf", "# c\na = 1\nms \"t\" { k = zz }\n"));
		steps.push_back(parse_step(0, 0, "buf", "fn(a, b,\n"));
		steps.push_back(parse_step(0, 0, "buf", "include(\"/etc/app/inc.conf\")\ninclude(\"/nope\")\n"));
		steps.push_back(parse_step(0, 0, "buf", "l = {1, 2\n"));
		steps.push_back(parse_step(0, 0, "buf", "ms \"open\" {\n k = 1\n"));
		break;
	}
	}
	add_tail(steps, 0, next_ctx);
	plan["steps"] = steps;
	plan["params"] = {{"enumerate", "alloc"}, {"workload", "fixed-" + std::to_string(w)}};
	return plan;
}

json seeded_workload(uint64_t seed)
{
	Rng r(seed);
	json plan;
	SchemaGen sg;
	sg.funcs = true;
	sg.include = false;
	sg.ptrs = true;
	sg.pcb = true;
	sg.vcb = r.chance(1, 2);
	sg.keystrval = true;
	sg.simple = true;
	sg.max_opts = 5;
	json schema = gen_schema(r, sg);
	plan["schemas"] = json::array({schema});
	plan["world"] = world18();
	plan["knobs"] = {{"fill", r.chance(1, 2) ? 0xA5 : 0xFF}, {"tty", r.chance(1, 6)}};
	json steps = json::array();
	json init = step(0, "init", 0);
	int flags = (r.chance(1, 3) ? F_COMMENTS : 0) | (r.chance(1, 6) ? F_NOCASE : 0) | (r.chance(1, 6) ? F_IGNORE_UNKNOWN : 0);
	init["flags"] = flags;
	steps.push_back(init);
	if (r.chance(1, 4)) {
		json a = step(0, "addpath", 0);
		a["dir"] = "/etc/app";
		steps.push_back(a);
	}
	std::vector<OptRef> refs = collect_opts(r, schema["opts"]);
	ApiGen ag;
	ag.getters = true;
	int n = (int)r.range(1, 6);
	for (int i = 0; i < n; i++) {
		if (r.chance(2, 5)) {
			TextGen tg;
			tg.max_items = 4;
			tg.ctx_flags = flags;
			json s = step(0, "parse", 0);
			s["src"] = {{"kind", r.chance(1, 3) ? "fp" : "buf"}, {"chunks", chunks_to_json(gen_text(r, schema["opts"], tg))}};
			steps.push_back(s);
		} else
			steps.push_back(gen_api_step(r, 0, 0, refs, ag));
	}
	steps.push_back(step(0, "dump", 0));
	steps.push_back(step(0, "print", 0));
	steps.push_back(step(0, "free", 0));
	json pi = step(0, "init", 1);
	pi["probe"] = 1;
	steps.push_back(pi);
	if (!refs.empty()) {
		TextGen tg;
		tg.max_items = 3;
		tg.comments = 0;
		json s = step(0, "parse", 1);
		s["probe"] = 1;
		s["src"] = {{"kind", "buf"}, {"chunks", chunks_to_json(gen_text(r, schema["opts"], tg))}};
		steps.push_back(s);
	}
	plan["steps"] = steps;
	plan["params"] = {{"enumerate", "alloc"}, {"workload", "seeded"}};
	return plan;
}

json generate(uint64_t seed, uint64_t idx, int tier)
{
	(void)tier;
	if (idx < (uint64_t)NFIXED)
		return fixed_workload((int)idx);
	return seeded_workload(seed);
}

bool reports_failure(const OpResult &o)
{
	if (o.op == "init" || o.op == "tilde" || o.op == "searchpath")
		return o.ret == 0;
	return o.ret != 0;
}

bool return_is_uninformative(const std::string &op)
{
	// NULL is also a legitimate success value for these (DESIGN appendix A.4); cfg_print does not allocate
	return op == "setvalidate" || op == "setvalidate2" || op == "setprintfunc" || op == "print" || op == "getters" || op == "dump" || op == "free";
}

void check_one(const json &plan, const RunResult &base, size_t step_index, JudgeOut &out)
{
	RunResult r = execute(plan);
	add_exec_counters(out, r);
	out.k.add("fault.alloc.configured");
	const OpResult *fo = nullptr, *bo = nullptr;
	for (auto &o : r.ops)
		if (o.index == (int)step_index)
			fo = &o;
	for (auto &o : base.ops)
		if (o.index == (int)step_index)
			bo = &o;
	if (!fo || !bo || !fo->fail_fired) {
		out.k.add("fault.alloc.not_reached");
		return;
	}
	out.k.add("fault.alloc.fired");
	out.k.add("site." + fo->fail_site);
	std::string where = fo->op + ":" + fo->fail_site;
	uint64_t k = plan["steps"][step_index].value("falloc", (uint64_t)0);
	out.distinct.push_back(mix(mix(plan_fingerprint(plan), step_index), k));
	if (fo->fail_site.find("cfg_setopt") != std::string::npos && fo->op != "parse")
		out.k.add("probe.failure_inside_section_creation_or_setopt");
	if (fo->op == "init")
		out.k.add("probe.failure_during_initialisation");

	std::vector<Violation> v;
	death_and_stdout(r, "", v);
	for (auto &x : v) {
		if (x.cls.compare(0, 6, "death:") == 0)
			out.viol.push_back({x.cls + ":site=" + fo->fail_site, x.detail + " (after the allocation request '" + fo->fail_site + "' #" + std::to_string(k) + " of step #" + std::to_string(step_index) + " failed)", plan});
	}
	if (r.died)
		return;
	// the faulted call either reports failure or completes
	if (!reports_failure(*fo) && !return_is_uninformative(fo->op)) {
		bool same = fo->dump == bo->dump && fo->sres == bo->sres && fo->ret == bo->ret;
		if (same)
			out.k.add("fault.alloc.completed_anyway");
		else
			out.viol.push_back({"silent:" + where,
					    "step #" + std::to_string(step_index) + " (" + fo->op + ") returned success (" + std::to_string(fo->ret) + ") although its allocation '" + fo->fail_site +
						    "' failed, and the resulting state differs from the fault-free run\n  faulted:    " + outcome(*fo).substr(0, 700) + "\n  fault-free: " + outcome(*bo).substr(0, 700),
					    plan});
	} else if (reports_failure(*fo))
		out.k.add("fault.alloc.reported");
	// conservation after the fault
	for (auto &c : r.conservation) {
		std::string what = c.substr(0, c.find(" x"));
		out.viol.push_back({"conservation:" + where + ":" + what, "after the allocation '" + fo->fail_site + "' failed in step #" + std::to_string(step_index) + " (" + fo->op + "): " + c, plan});
	}
	// recovery: the probe (steps marked "probe": init of a fresh context, then a valid parse) equals the fault-free result
	size_t nsteps = plan["steps"].size();
	long probe_init = -1, probe_parse = -1;
	for (size_t i = 0; i < nsteps; i++) {
		const json &st = plan["steps"][i];
		if (!st.value("probe", 0))
			continue;
		if (st["op"] == "init")
			probe_init = (long)i;
		else if (st["op"] == "parse" && probe_init >= 0)
			probe_parse = (long)i;
	}
	if (probe_parse >= 0 && (long)step_index < probe_init) {
		const OpResult *fp = nullptr, *bp = nullptr;
		for (auto &o : r.ops)
			if (o.index == (int)probe_parse)
				fp = &o;
		for (auto &o : base.ops)
			if (o.index == (int)probe_parse)
				bp = &o;
		if (fp && bp && fp->op == "parse" && outcome(*fp) != outcome(*bp))
			out.viol.push_back({"recovery:" + where, "the probe parse into a fresh context after the fault differs from the fault-free run\n  after fault: " + outcome(*fp).substr(0, 500) + "\n  fault-free:  " + outcome(*bp).substr(0, 500), plan});
	}
}

JudgeOut judge(const json &plan)
{
	JudgeOut out;
	json clean = plan;
	long explicit_step = -1;
	for (size_t i = 0; i < clean["steps"].size(); i++)
		if (clean["steps"][i].contains("falloc")) {
			explicit_step = (long)i;
			clean["steps"][i].erase("falloc");
		}
	RunResult base = execute(clean);
	add_exec_counters(out, base);
	if (base.died || !base.conservation.empty()) {
		// a broken fault-free run belongs to C02/C07, not to this property
		out.discarded = true;
		out.k.add("baseline_unusable");
		return out;
	}
	bool enumerate = plan.contains("params") && plan["params"].contains("enumerate");
	if (!enumerate) {
		if (explicit_step >= 0)
			check_one(plan, base, (size_t)explicit_step, out);
		return out;
	}
	out.k.add("workloads");
	for (auto &bo : base.ops) {
		if (bo.op == "end" || bo.skipped || bo.index < 0)
			continue;
		out.k.add("entry." + bo.op);
		for (uint64_t k = 1; k <= bo.u1_requests; k++) {
			json p2 = plan;
			p2["steps"][bo.index]["falloc"] = k;
			p2["params"].erase("enumerate");
			note_subcase(json::array({{{"op", "add"}, {"path", "/steps/" + std::to_string(bo.index) + "/falloc"}, {"value", k}},
						  {{"op", "remove"}, {"path", "/params/enumerate"}}}));
			size_t before = out.viol.size();
			check_one(p2, base, (size_t)bo.index, out);
			// keep the report bounded: one violation per class per workload
			if (out.viol.size() > before + 0 && out.viol.size() > 64)
				return out;
		}
	}
	// de-duplicate classes within the workload (the first plan of each class is kept)
	std::vector<Violation> uniq;
	std::set<std::string> seen;
	for (auto &v : out.viol)
		if (seen.insert(v.cls).second)
			uniq.push_back(v);
	out.viol = uniq;
	return out;
}

Property P = [] {
	Property p;
	p.id = "C18";
	p.level = "fault_enumeration";
	p.rule = "workloads = 9 fixed plans covering every public entry point (init with scalar/parsed-list/nested-section/pointer defaults; the three parse entry points with "
		 "includes, search path, free-form keys, annotations, titled sections; every setter; bulk set; list set/append; section add/remove by index/title/path; annotation; "
		 "search path; tilde; path lookups; callback registration by path; print; restart; rejected parses) plus seeded workloads (random schema, texts and API steps); for each "
		 "workload and each step the baseline counts the N allocation requests issued by confuse.c and the step is re-run with request k failing for every k=1..N; "
		 "distinct = distinct (workload, step, k) fault points at which the fault actually fired";
	p.assumptions = {"scanner-internal allocations (flex buffers, qputc) are out of scope by the property's quantifier and never fail",
			 "'reports failure' is decided per entry point as in DESIGN appendix A.4; for cfg_set_validate_func*/cfg_set_print_func either return value is accepted",
			 "a faulted call that returns success must leave exactly the state of the fault-free run (otherwise it neither completed nor reported)",
			 "a workload whose fault-free run already dies or leaks is discarded (owned by C02/C07); the discard count is in the evidence and must be 0 on a healthy tree"};
	p.probes = {"failure_inside_section_creation_or_setopt", "failure_during_initialisation"};
	p.components = {{"confuse.c", "real"}, {"lexer.l (flex 2.6.4 generated)", "real"}, {"allocator", "stub: failable for confuse.c, accounting-only for the scanner"},
			{"file namespace / passwd / env", "stub"}, {"user callbacks", "stub"}, {"abort/exit/assert", "stub: recorded and unwound"}};
	p.quick_seconds = 25;
	p.thorough_seconds = 600;
	p.generate = generate;
	p.judge = judge;
	return p;
}();
Registrar reg(&P);

} // namespace
} // namespace sim
