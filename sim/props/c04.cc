// C04 — text-to-number/boolean conversion is exact or rejected, independent of the ambient errno.
// Simulation-owned clause: the ambient errno left behind by earlier calls / the application (F-errno) and the
// history of failed range checks; the numeral clause is decided against small reference models as workload.
#include <cerrno>
#include <climits>
#include <cmath>

#include "common.h"
#include "models.h"

namespace sim {
namespace {

const char ALPHA[] = "01789afxb-+.e ";
const int NALPHA = sizeof(ALPHA) - 1;

const char *BOUNDARY[] = {
	"9223372036854775807", "9223372036854775808", "-9223372036854775808", "-9223372036854775809", "0x7fffffffffffffff", "0x8000000000000000", "0xffffffffffffffff",
	"0777777777777777777777", "01000000000000000000000", "0b111111111111111111111111111111111111111111111111111111111111111",
	"0b1000000000000000000000000000000000000000000000000000000000000000", "99999999999999999999", "-99999999999999999999", "1e999", "-1e999", "1.7976931348623157e308",
	"1.7976931348623159e308", "1e308", "1e309", "0x", "0b", "0", "00", "08", "09", "0b2", "0b1", "0x1g", "0xg", "-0x10", "0x-5", "0b+1", "0-7", "-0", "+5", "--5", "+-5", " 5", "5 ", " 5 ",
	"5x", "x5", "", " ", "1.5", "1.5.5", ".5", "5.", ".", "e5", "1e", "1e+", "1e+2", "1E2", "inf", "nan", "-inf", "0x1p3", "1e-999", "4.9e-324", "1e-400", "2.2250738585072014e-308", "1e-310", "1f", "0f", "true", "TRUE", "tRuE", "yes", "YES", "on",
	"On", "false", "no", "off", "OFF", "1", "maybe", "tru", "truee", "y", "n", "o", "yess", " on", "on ", "0b0", "0x0", "0b", "-", "+", "0b11111111", "0xABCdef", "0XFF", "0B1", "012", "-012", "+012",
	// every kind of white space strtol/strtod would skip, in front and behind
	"\n7", "\r7", "\v7", "\f7", "\t7", "7\n", "7\t", "\n0x1f", "\n017", "\f0b1", "\n1.5", "\t1.5", "\v1.5", "1.5\n", "\n-3", "\non", "on\n", "\ttrue", "\r\n5"};
const int NBOUNDARY = sizeof(BOUNDARY) / sizeof(BOUNDARY[0]);

// tokens longer than any fixed working buffer: exact powers of ten, long fractions, a garbage tail far out
std::string long_token(Rng &r)
{
	switch (r.below(6)) {
	case 0:
		return "1" + std::string((size_t)r.range(60, 90), '0'); // 1e60 .. 1e90 as a float, out of range as an integer
	case 1:
		return "1" + std::string((size_t)r.range(60, 90), '0') + ".5";
	case 2:
		return "0." + std::string((size_t)r.range(60, 90), '0') + "25";
	case 3:
		return "3." + std::string((size_t)r.range(62, 80), '1') + "zz"; // not a numeral
	case 4:
		return std::string((size_t)r.range(62, 80), '7') + "x";
	default:
		return "-" + std::string((size_t)r.range(18, 70), '9');
	}
}

const int ERRNOS[] = {0, ERANGE, EINVAL, ENOENT, EINTR, EBADF, 12345};

std::string token_from_index(uint64_t k)
{
	// enumerates all strings of length 0..4 over ALPHA
	uint64_t base = NALPHA;
	for (int len = 0; len <= 4; len++) {
		uint64_t count = 1;
		for (int i = 0; i < len; i++)
			count *= base;
		if (k < count) {
			std::string s;
			for (int i = 0; i < len; i++) {
				s += ALPHA[k % base];
				k /= base;
			}
			return s;
		}
		k -= count;
	}
	return "0";
}
const uint64_t NTOKENS = 1 + 14 + 14 * 14 + 14 * 14 * 14 + 14 * 14 * 14 * 14;

json generate(uint64_t seed, uint64_t idx, int tier)
{
	Rng r(seed);
	json plan;
	json opts = json::array({{{"n", "i"}, {"t", "int"}, {"d", 7}},
				 {{"n", "f"}, {"t", "float"}, {"d", 0.5}},
				 {{"n", "b"}, {"t", "bool"}, {"d", false}},
				 {{"n", "il"}, {"t", "int"}, {"fl", F_LIST}},
				 {{"n", "fl"}, {"t", "float"}, {"fl", F_LIST}},
				 {{"n", "bl"}, {"t", "bool"}, {"fl", F_LIST}},
				 // bound to application variables (CFG_SIMPLE_*): the converted value is stored through the pointer
				 {{"n", "si"}, {"t", "int"}, {"simple", 1}},
				 {{"n", "sf"}, {"t", "float"}, {"simple", 1}},
				 {{"n", "sb"}, {"t", "bool"}, {"simple", 1}}});
	plan["schemas"] = json::array({{{"opts", opts}}});
	plan["knobs"] = {{"tty", r.chance(1, 5)}};
	json steps = json::array();
	json i0 = step(0, "init", 0);
	i0["keep"] = 1;
	steps.push_back(i0);
	int n = (int)r.range(2, 6);
	for (int k = 0; k < n; k++) {
		std::string tok;
		unsigned sel = (unsigned)r.below(10);
		if (tier && k == 0)
			tok = token_from_index(idx % NTOKENS); // thorough: the length<=4 token space is cycled completely
		else if (sel < 1)
			tok = long_token(r);
		else if (sel < 4)
			tok = BOUNDARY[r.below(NBOUNDARY)];
		else if (sel < 9)
			tok = token_from_index(r.below(NTOKENS));
		else {
			long v;
			tok = gen_int_literal(r, &v);
		}
		static const char *types[] = {"int", "int", "float", "bool"};
		std::string ty = types[r.below(4)];
		std::string scalar = ty == "int" ? "i" : ty == "float" ? "f" : "b";
		if (r.chance(1, 4))
			scalar = "s" + scalar; // the variant bound to an application variable
		std::string list = ty == "int" ? "il" : ty == "float" ? "fl" : "bl";
		json s;
		switch (r.below(4)) {
		case 0: // parser, scalar
			s = parse_step(0, 0, r.chance(1, 4) ? "fp" : "buf", scalar + " = " + encode_string(r, tok, 2, false) + "\n");
			s["conv"] = json::array({"parse", ty, J(tok), scalar});
			break;
		case 1: // parser, list element
			s = parse_step(0, 0, "buf", list + " = {" + encode_string(r, tok, 2, false) + "}\n");
			s["conv"] = json::array({"parse", ty, J(tok), list});
			break;
		case 2:
			s = step(0, "setopt", 0);
			s["name"] = scalar;
			s["v"] = J(tok);
			s["conv"] = json::array({"setopt", ty, J(tok), scalar});
			break;
		default:
			s = step(0, "setmulti", 0);
			s["name"] = list;
			s["vals"] = json::array({J(tok)});
			if (r.chance(1, 3))
				s["byopt"] = true;
			s["conv"] = json::array({"setmulti", ty, J(tok), list});
			break;
		}
		s["errno"] = ERRNOS[r.below(7)]; // F-errno: what "the rest of the application" left behind
		steps.push_back(s);
	}
	plan["steps"] = steps;
	plan["frozen"] = json::array({"schemas"});
	return plan;
}

// last value of option 'name' in a canonical dump
bool dump_value(const std::string &dump, const std::string &name, std::string *val)
{
	size_t p = dump.find("\n" + name + ":");
	if (dump.compare(0, name.size() + 1, name + ":") == 0)
		p = 0;
	else if (p == std::string::npos)
		return false;
	else
		p++;
	size_t eol = dump.find('\n', p);
	std::string line = dump.substr(p, eol - p);
	size_t sp = line.find(" simple=");
	if (sp != std::string::npos) {
		// bound to an application variable
		size_t e2 = line.find(' ', sp + 8);
		*val = line.substr(sp + 8, e2 == std::string::npos ? std::string::npos : e2 - sp - 8);
		return true;
	}
	size_t b = line.find('['), e = line.rfind(']');
	if (b == std::string::npos || e == std::string::npos || e <= b + 1)
		return false;
	std::string inner = line.substr(b + 1, e - b - 1);
	size_t c = inner.rfind(',');
	*val = c == std::string::npos ? inner : inner.substr(c + 1);
	return true;
}

JudgeOut judge(const json &plan)
{
	JudgeOut out;
	RunResult r = execute(plan);
	add_exec_counters(out, r);
	death_and_stdout(r, "", out.viol);
	out.viol.erase(std::remove_if(out.viol.begin(), out.viol.end(), [](const Violation &v) { return v.cls.compare(0, 7, "stdout:") == 0 || v.cls.compare(0, 6, "stdin:") == 0; }), out.viol.end());
	if (r.died)
		return out;
	const json &steps = plan["steps"];
	bool prior_range_failure = false;
	for (auto &o : r.ops) {
		if (o.index < 0 || (size_t)o.index >= steps.size() || o.skipped)
			continue;
		const json &st = steps[o.index];
		if (!st.contains("conv"))
			continue;
		std::string route = st["conv"][0].get<std::string>(), ty = st["conv"][1].get<std::string>(), tok = from_json_bytes(st["conv"][2].get<std::string>()),
			    name = st["conv"][3].get<std::string>();
		out.k.add("route." + route);
		out.k.add("fault.errno.configured");
		if (st.value("errno", 0) != 0)
			out.k.add("fault.errno.fired");
		if (st.value("errno", 0) == ERANGE)
			out.k.add("probe.conversion_with_stale_ERANGE");
		if (prior_range_failure)
			out.k.add("probe.conversion_after_failed_range_check");
		out.distinct.push_back(fnv64(route + "|" + ty + "|" + tok + "|" + std::to_string(st.value("errno", 0))));
		long iv = 0;
		double fv = 0;
		int verdict = ty == "int" ? model_int(tok, &iv) : ty == "float" ? model_float(tok, &fv) : model_bool(tok, &iv);
		bool accepted = o.ret == 0;
		std::string where = route + ":" + ty;
		std::string shown = "\"" + esc(tok) + "\" (" + ty + " via " + route + ", ambient errno " + std::to_string(st.value("errno", 0)) + ")";
		if (!accepted && !o.diags.empty() && ty != "bool") {
			// remember range failures for the history probe
			unsigned __int128 dummy = 0;
			(void)dummy;
			prior_range_failure = true;
		}
		if (verdict == -1) {
			out.k.add("model.dont_care");
			continue;
		}
		if (verdict == 1 && !accepted)
			out.viol.push_back({"M-" + ty + ":rejects-valid:" + route, "valid token " + shown + " was rejected (ret=" + std::to_string(o.ret) + ")", nullptr});
		else if (verdict == 0 && accepted)
			out.viol.push_back({"M-" + ty + ":accepts-invalid:" + route, "token " + shown + " is not a complete in-range " + ty + " numeral/word but was accepted\n" + o.dump.substr(0, 300), nullptr});
		else if (verdict == 0 && !accepted && o.diags.empty())
			out.viol.push_back({"M-" + ty + ":silent-reject:" + route, "token " + shown + " was rejected without any diagnostic", nullptr});
		else if (verdict == 1) {
			std::string got;
			if (!dump_value(o.dump, name, &got))
				out.viol.push_back({"M-" + ty + ":no-value:" + route, "token " + shown + " was accepted but option '" + name + "' holds no value\n" + o.dump.substr(0, 300), nullptr});
			else {
				std::string want;
				char b[64];
				if (ty == "int")
					want = std::to_string(iv);
				else if (ty == "bool")
					want = iv ? "true" : "false";
				else {
					snprintf(b, sizeof b, "%a", fv);
					want = b;
				}
				if (got != want)
					out.viol.push_back({"M-" + ty + ":wrong-value:" + route, "token " + shown + " must convert to " + want + " but the option holds " + got, nullptr});
				else
					out.k.add("model.exact");
			}
		} else
			out.k.add("model.rejected");
	}
	// ---- O-errno: same plan under other ambient errno values gives the same outcomes
	if (out.viol.empty()) {
		for (int e : {0, ERANGE, EBADF}) {
			json p2 = plan;
			for (auto &st : p2["steps"])
				if (st.contains("errno"))
					st["errno"] = e;
			RunResult r2 = execute(p2);
			add_exec_counters(out, r2);
			bool same = r2.ops.size() == r.ops.size();
			size_t bad = 0;
			for (size_t i = 0; same && i < r.ops.size(); i++)
				if (outcome(r.ops[i]) != outcome(r2.ops[i])) {
					same = false;
					bad = i;
				}
			if (!same) {
				std::string d = "with ambient errno " + std::to_string(e) + " before every conversion the outcome of step #" + std::to_string(r.ops[bad].index) + " (" + r.ops[bad].op + ") changes\n  as planned: " +
						outcome(r.ops[bad]).substr(0, 400) + "\n  errno=" + std::to_string(e) + ": " + outcome(r2.ops[bad]).substr(0, 400);
				out.viol.push_back({"O-errno:" + r.ops[bad].op, d, nullptr});
				break;
			}
		}
		// ---- O-scrub on the history (a failed range check followed by valid conversions)
		ExecOpts so;
		so.scrub = true;
		json p3 = plan;
		for (auto &st : p3["steps"])
			st.erase("errno");
		RunResult a = execute(p3), b = execute(p3, so);
		add_exec_counters(out, a);
		add_exec_counters(out, b);
		for (size_t i = 0; i < a.ops.size() && i < b.ops.size(); i++)
			if (outcome(a.ops[i]) != outcome(b.ops[i])) {
				out.viol.push_back({"O-scrub:" + a.ops[i].op, "step #" + std::to_string(a.ops[i].index) + " depends on errno / scanner state left by earlier conversions\n  history: " + outcome(a.ops[i]).substr(0, 300) +
										      "\n  scrubbed: " + outcome(b.ops[i]).substr(0, 300),
						    nullptr});
				break;
			}
	}
	return out;
}

Property P = [] {
	Property p;
	p.id = "C04";
	p.level = "exploration";
	p.rule = "2-6 conversions per plan through every route (parser scalar, parser list element, cfg_setopt, cfg_setmulti by name / by option) for int, float and bool options; tokens from "
		 "all strings of length <= 4 over {0 1 7 8 9 a f x b - + . e space} (38,431 tokens: sampled in quick, cycled completely in thorough) plus 110 boundary tokens around "
		 "LONG_MIN/LONG_MAX in radix 2/8/10/16, DBL_MAX, prefixes without digits, stray signs and spaces, boolean words in all cases and near-misses; before every conversion the "
		 "ambient errno is set to one of {0, ERANGE, EINVAL, ENOENT, EINTR, EBADF, 12345} (F-errno); distinct = distinct (route, type, token, errno) tuples";
	p.assumptions = {"M-int: accept iff the whole token is [sign]decimal | 0x hex digits+ | 0b binary digits+ | 0 octal digits*, within long; a sign in front of a prefixed numeral and upper-case 0X/0B are don't-cares",
			 "M-float: accept iff the whole token is a plain decimal floating point numeral whose strtod() value is finite; overflow and underflow (ERANGE) must be rejected (never silently truncated); inf/nan/hex floats are don't-cares (statement silent); value = C library strtod",
			 "M-bool: the six words, any letter case",
			 "enumerating the token space is workload generation; the clause only a simulator decides is O-errno / O-scrub over ambient errno and histories"};
	p.probes = {"conversion_with_stale_ERANGE", "conversion_after_failed_range_check"};
	p.components = {{"confuse.c cfg_setopt / cfg_parse_boolean", "real"}, {"lexer", "real"}, {"glibc strtol/strtod", "real"}, {"ambient errno", "stub: assigned by the simulator before each call"}};
	p.quick_seconds = 20;
	p.thorough_seconds = 300;
	p.generate = generate;
	p.judge = judge;
	return p;
}();
Registrar reg(&P);

} // namespace
} // namespace sim
