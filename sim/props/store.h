// M-store: the abstract typed store of C09 (ordered value sequence per option, ordered title-keyed section sequence
// per section option), operating on the executor's JSON tree form of a context.  Rules are limited to what the
// statement says; everything it is silent about is an explicit don't-care (the model is re-synchronised from the
// observation).  See DESIGN appendix A.2.
#pragma once
#include <strings.h>

#include "common.h"
#include "models.h"

namespace sim {
namespace store {

enum Pred { OK, FAIL, DONTCARE, NOCHANGE };

inline json *find_opt(json &node, const std::string &name, bool nocase)
{
	if (!node.is_object() || !node.contains("opts"))
		return nullptr;
	for (auto &o : node["opts"]) {
		std::string n = from_json_bytes(o["n"].get<std::string>());
		if (nocase ? strcasecmp(n.c_str(), name.c_str()) == 0 : n == name)
			return &o;
	}
	return nullptr;
}

inline json *navigate(json &tree, const json &step_json, bool nocase)
{
	json *cur = &tree;
	if (!step_json.contains("at"))
		return cur;
	for (auto &st : step_json["at"]) {
		json *o = find_opt(*cur, from_json_bytes(st[0].get<std::string>()), nocase);
		if (!o || (*o)["t"] != "sec")
			return nullptr;
		size_t idx = st[1].get<size_t>();
		if (idx >= (*o)["s"].size())
			return nullptr;
		cur = &(*o)["s"][idx]["cfg"];
		if (cur->is_null())
			return nullptr;
	}
	return cur;
}

inline std::string repr_typed(const std::string &t, const json &v)
{
	char b[64];
	if (t == "int")
		return std::to_string(v.get<long>());
	if (t == "float") {
		snprintf(b, sizeof b, "%a", v.get<double>());
		return b;
	}
	if (t == "bool")
		return (v.is_boolean() ? v.get<bool>() : v.get<long>() != 0) ? "true" : "false";
	if (v.is_null())
		return "(null)";
	return "\"" + esc(from_json_bytes(v.get<std::string>())) + "\"";
}

// converts a text for an option type: 1 ok (repr set), 0 unconvertible, -1 don't care
inline int convert_text(const std::string &t, const std::string &text, std::string *repr)
{
	char b[64];
	if (t == "str") {
		*repr = "\"" + esc(text) + "\"";
		return 1;
	}
	long iv = 0;
	double fv = 0;
	int verdict = t == "int" ? model_int(text, &iv) : t == "float" ? model_float(text, &fv) : model_bool(text, &iv);
	if (verdict != 1)
		return verdict;
	if (t == "int")
		*repr = std::to_string(iv);
	else if (t == "bool")
		*repr = iv ? "true" : "false";
	else {
		snprintf(b, sizeof b, "%a", fv);
		*repr = b;
	}
	return 1;
}

inline long title_index(const json &opt, const std::string &title, bool nocase)
{
	long i = 0;
	for (auto &s : opt["s"]) {
		if (!s["title"].is_null()) {
			std::string t = from_json_bytes(s["title"].get<std::string>());
			if (nocase ? strcasecmp(t.c_str(), title.c_str()) == 0 : t == title)
				return i;
		} else
			return -1; // an untitled instance stops the title search (as the library does)
		i++;
	}
	return -1;
}

struct Model {
	int ctx_flags = 0;
	bool nocase() const { return (ctx_flags & F_NOCASE) != 0; }

	// Applies 'st' to 'tree' (the model state of the step's context).  Returns the predicted class; for OK the
	// tree is updated.  'fresh' is set when a new section instance was appended whose content the model cannot
	// predict (its defaults): the caller adopts the observed content.
	Pred apply(json &tree, const json &st, std::string *why, bool *fresh_instance)
	{
		*fresh_instance = false;
		std::string op = st["op"].get<std::string>();
		if (op == "dump" || op == "getters" || op == "print" || op == "searchpath")
			return NOCHANGE;
		if (op == "parse" || op == "setopt" || op == "setcomment" || op == "restart" || op == "addpath" || op == "setvalidate" || op == "setvalidate2" || op == "setprintfunc")
			return DONTCARE;
		json *node = navigate(tree, st, nocase());
		if (!node) {
			*why = "addressed section does not exist";
			return DONTCARE; // the executor skips such steps
		}
		std::string name = st.contains("name") ? from_json_bytes(st["name"].get<std::string>()) : "";
		// ---- typed setters
		static const char *types[] = {"int", "float", "bool", "str"};
		for (const char *ty : types) {
			if (op != std::string("set") + ty && op != std::string("oset") + ty)
				continue;
			json *o = find_opt(*node, name, nocase());
			if (!o) {
				*why = "unknown name";
				return FAIL;
			}
			if ((*o)["t"] != ty) {
				*why = "wrong type";
				return FAIL;
			}
			unsigned idx = st.value("idx", 0u);
			bool list = ((*o)["fl"].get<int>() & F_LIST) != 0;
			json newv = st["v"];
			std::string self_repr;
			bool self = st.value("self", false) && std::string(ty) == "str";
			if (self) // the value handed in is the option's own current value at that index (NULL beyond the end)
				self_repr = idx < (*o)["v"].size() ? (*o)["v"][idx].get<std::string>() : std::string("(null)");
			if (!list) {
				if (idx != 0) {
					*why = "index beyond a scalar";
					return FAIL;
				}
				if (o->contains("sv")) {
					// bound to an application variable: the value is stored there, the option itself holds none
					if (self)
						self_repr = (*o)["sv"].get<std::string>();
					(*o)["sv"] = self ? self_repr : repr_typed(ty, newv);
					(*o)["M"] = true;
					return OK;
				}
				(*o)["v"] = json::array({self ? self_repr : repr_typed(ty, newv)});
				(*o)["M"] = true;
				(*o)["R"] = false;
				return OK;
			}
			if ((*o)["R"].get<bool>() && !(*o)["v"].empty()) {
				*why = "indexed setter on a list that still holds its pristine defaults";
				return DONTCARE;
			}
			if (idx < (*o)["v"].size()) {
				(*o)["v"][idx] = self ? self_repr : repr_typed(ty, st["v"]);
				(*o)["M"] = true;
				(*o)["R"] = false;
				return OK;
			}
			*why = "indexed setter at or beyond the end of a list";
			return DONTCARE;
		}
		if (op == "setlist" || op == "addlist") {
			json *o = find_opt(*node, name, nocase());
			if (!o || !((*o)["fl"].get<int>() & F_LIST)) {
				*why = "not a list";
				return FAIL;
			}
			std::string ty = (*o)["t"].get<std::string>();
			if (ty != "int" && ty != "float" && ty != "bool" && ty != "str")
				return DONTCARE;
			size_t n = std::min<size_t>(st["vals"].size(), 4);
			if (op == "setlist")
				(*o)["v"] = json::array();
			for (size_t i = 0; i < n; i++) {
				const json &v = st["vals"][i];
				// the executor passes each value as the option's own type
				json tv = v;
				if (ty == "int")
					tv = v.is_number() ? (long)(int)v.get<long>() : 0L;
				else if (ty == "float")
					tv = v.is_number() ? v.get<double>() : 0.0;
				else if (ty == "bool")
					tv = v.is_boolean() ? v.get<bool>() : (v.is_number() && v.get<long>() != 0);
				else if (!v.is_string())
					tv = v.dump();
				(*o)["v"].push_back(repr_typed(ty, tv));
			}
			if (n > 0 || op == "setlist") {
				(*o)["M"] = true;
				(*o)["R"] = false;
			} else if (!(*o)["v"].empty())
				(*o)["R"] = false; // an append of nothing still is an append: what the option holds is its contents from now on
			if (n == 0)
				*why = "empty"; // flag handling of empty set/append is left open (see judge)
			return OK;
		}
		if (op == "setmulti") {
			json *o = find_opt(*node, name, nocase());
			if (!o) {
				*why = "unknown name";
				return FAIL;
			}
			std::string ty = (*o)["t"].get<std::string>();
			if (ty != "int" && ty != "float" && ty != "bool" && ty != "str")
				return DONTCARE;
			size_t n = st["vals"].size();
			if (n == 0) {
				*why = "no values";
				return FAIL;
			}
			bool list = ((*o)["fl"].get<int>() & F_LIST) != 0;
			if (o->contains("sv"))
				return DONTCARE;
			json nv = json::array();
			for (auto &v : st["vals"]) {
				std::string rep;
				int c = convert_text(ty, from_json_bytes(v.get<std::string>()), &rep);
				if (c == -1)
					return DONTCARE;
				if (c == 0) {
					*why = "unconvertible element";
					return FAIL;
				}
				nv.push_back(rep);
			}
			if (!list) {
				// a scalar holds one value: every element replaces the one before, the last one stays
				json last = nv.back();
				nv = json::array({last});
			}
			(*o)["v"] = nv;
			(*o)["M"] = true;
			(*o)["R"] = false;
			return OK;
		}
		if (op == "addtsec") {
			json *o = find_opt(*node, name, nocase());
			if (!o || (*o)["t"] != "sec")
				return DONTCARE;
			int fl = (*o)["fl"].get<int>();
			if (!(fl & F_MULTI) || !(fl & F_TITLE))
				return DONTCARE;
			std::string title = from_json_bytes(st["title"].get<std::string>());
			if (title_index(*o, title, nocase()) >= 0) {
				*why = "title exists";
				return FAIL;
			}
			json inst;
			inst["title"] = to_json_bytes(title);
			inst["cfg"] = nullptr;
			(*o)["s"].push_back(inst);
			(*o)["M"] = true;
			*fresh_instance = true;
			return OK;
		}
		if (op == "rmnsec") {
			json *o = find_opt(*node, name, nocase());
			if (!o || (*o)["t"] != "sec") {
				*why = "not a section";
				return FAIL;
			}
			unsigned idx = st.value("idx", 0u);
			if (idx >= (*o)["s"].size()) {
				*why = "no such index";
				return FAIL;
			}
			(*o)["s"].erase((*o)["s"].begin() + idx);
			return OK;
		}
		if (op == "rmtsec") {
			json *o = find_opt(*node, name, nocase());
			if (!o || (*o)["t"] != "sec" || !((*o)["fl"].get<int>() & F_TITLE)) {
				*why = "not a titled section";
				return FAIL;
			}
			long i = title_index(*o, from_json_bytes(st["title"].get<std::string>()), ((*o)["fl"].get<int>() & F_NOCASE) != 0 || nocase());
			if (i < 0) {
				*why = "no such title";
				return FAIL;
			}
			(*o)["s"].erase((*o)["s"].begin() + i);
			return OK;
		}
		if (op == "rmsec") {
			// by path: components separated by '|'; each is "name", "name=index" (untitled multi), "name=title" or
			// "name='quoted title'" (\' and \\ are the only escapes).  Every component but the last selects the section
			// instance to descend into; the last one selects the instance to remove.  Forms outside this grammar
			// (empty components, stray separators) are don't-cares here.
			json *cur = node;
			size_t pos = 0;
			while (true) {
				size_t e = name.find_first_of("|=", pos);
				std::string base = name.substr(pos, e == std::string::npos ? std::string::npos : e - pos);
				if (base.empty() || base.find_first_of("'\\") != std::string::npos)
					return DONTCARE;
				bool has_q = e != std::string::npos && name[e] == '=';
				std::string q;
				bool quoted = false, malformed = false;
				size_t next = e; // position of the '|' that ends this component, or npos
				if (has_q) {
					size_t i = e + 1;
					if (i < name.size() && name[i] == '\'') {
						quoted = true;
						i++;
						bool closed = false;
						while (i < name.size()) {
							char c = name[i];
							if (c == '\'') {
								closed = true;
								i++;
								break;
							}
							if (c == '\\') {
								if (i + 1 < name.size() && (name[i + 1] == '\'' || name[i + 1] == '\\')) {
									q += name[i + 1];
									i += 2;
									continue;
								}
								malformed = true;
								break;
							}
							q += c;
							i++;
						}
						if (!malformed && !closed)
							malformed = true;
						if (malformed)
							next = std::string::npos; // resolution stops here anyway
						else if (i < name.size() && name[i] != '|')
							return DONTCARE; // text right after the closing quote
						else
							next = i < name.size() ? i : std::string::npos;
					} else {
						size_t bar = name.find('|', i);
						q = name.substr(i, bar == std::string::npos ? std::string::npos : bar - i);
						if (q.find_first_of("'\\") != std::string::npos) // (an '=' inside a bare title belongs to the title)
							return DONTCARE;
						next = bar;
					}
				}
				json *o = find_opt(*cur, base, nocase());
				if (!o || (*o)["t"] != "sec") {
					*why = "not a section";
					return FAIL;
				}
				int fl = (*o)["fl"].get<int>();
				long i = -1;
				if (!has_q)
					i = 0;
				else if (fl & F_MULTI) {
					if (q.empty() && !quoted) {
						// "name=" : no title at all
						i = -1;
					} else if (malformed)
						i = -1;
					else if (fl & F_TITLE)
						i = title_index(*o, q, nocase());
					else {
						char *end = nullptr;
						long v = strtol(q.c_str(), &end, 0);
						i = (*end == 0) ? v : -1;
					}
				}
				if (i < 0 || (size_t)i >= (*o)["s"].size()) {
					*why = "path does not resolve";
					return FAIL;
				}
				// more components?
				size_t rest = next == std::string::npos ? std::string::npos : name.find_first_not_of('|', next);
				if (next != std::string::npos && rest != std::string::npos) {
					if (rest != next + 1)
						return DONTCARE; // a run of separators
					cur = &(*o)["s"][i]["cfg"];
					if (cur->is_null())
						return DONTCARE;
					pos = rest;
					continue;
				}
				if (next != std::string::npos)
					return DONTCARE; // trailing separator
				(*o)["s"].erase((*o)["s"].begin() + i);
				return OK;
			}
		}
		return DONTCARE;
	}
};

// projection the statement observes: size, values, titles, modified flag (value options), recursively
inline bool same_observable(const json &a, const json &b, std::string *diff, const std::string &path = "")
{
	if (a.is_null() || b.is_null()) {
		if (a.is_null() != b.is_null()) {
			*diff = path + ": section instance present on one side only";
			return false;
		}
		return true;
	}
	const json &ao = a["opts"], &bo = b["opts"];
	if (ao.size() != bo.size()) {
		*diff = path + ": number of options " + std::to_string(ao.size()) + " vs " + std::to_string(bo.size());
		return false;
	}
	for (size_t i = 0; i < ao.size(); i++) {
		const json &x = ao[i], &y = bo[i];
		std::string n = path + "/" + x["n"].get<std::string>();
		if (x["n"] != y["n"] || x["t"] != y["t"]) {
			*diff = n + ": option identity differs";
			return false;
		}
		if (x["t"] == "sec") {
			if (x["s"].size() != y["s"].size()) {
				*diff = n + ": " + std::to_string(x["s"].size()) + " vs " + std::to_string(y["s"].size()) + " instances";
				return false;
			}
			for (size_t k = 0; k < x["s"].size(); k++) {
				if (x["s"][k]["title"] != y["s"][k]["title"]) {
					*diff = n + "[" + std::to_string(k) + "]: title " + x["s"][k]["title"].dump() + " vs " + y["s"][k]["title"].dump();
					return false;
				}
				if (!same_observable(x["s"][k]["cfg"], y["s"][k]["cfg"], diff, n + "[" + std::to_string(k) + "]"))
					return false;
			}
		} else {
			if (x.contains("sv") != y.contains("sv") || (x.contains("sv") && x["sv"] != y["sv"])) {
				*diff = n + ": value in the application variable " + (x.contains("sv") ? x["sv"].dump() : "-") + " vs " + (y.contains("sv") ? y["sv"].dump() : "-");
				return false;
			}
			if (x["v"] != y["v"]) {
				*diff = n + ": values " + x["v"].dump() + " vs " + y["v"].dump();
				return false;
			}
			if (x["M"] != y["M"]) {
				*diff = n + ": modified flag " + x["M"].dump() + " vs " + y["M"].dump();
				return false;
			}
		}
	}
	return true;
}

} // namespace store
} // namespace sim
