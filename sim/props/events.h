// Callback events a text demands (from the generator's token map) and their alignment with the observed
// invocation trace.  Shared by C14 (decides the trace) and C06 (position of diagnostics raised by refusing callbacks).
#pragma once
#include "common.h"
#include "store.h"

namespace sim {

struct Ev {
	std::string kind;  // pcb vcb fn
	std::string opt;
	std::string arg;   // pcb: decoded value; fn: rendered argv; vcb: expected repr of the last value ("" = any)
	bool optional = false;
	size_t chunk = 0;
	size_t tok = 0; // the token whose processing triggers the invocation
};

// declaration of option 'name' reachable at nesting given by the section-name stack
inline const json *decl_of(const json &opts, const std::vector<std::string> &secs, const std::string &name)
{
	const json *cur = &opts;
	for (auto &s : secs) {
		const json *next = nullptr;
		for (auto &o : *cur)
			if (o["n"] == s && o.contains("sub"))
				next = &o["sub"];
		if (!next)
			return nullptr;
		cur = next;
	}
	for (auto &o : *cur)
		if (o["n"] == name)
			return &o;
	return nullptr;
}

inline std::string produced_repr(const std::string &type, const std::string &dec)
{
	// what the simulator's value-parsing callback produces for this token (see exec.cc sim_parsecb)
	uint64_t h = fnv64(dec);
	char b[64];
	if (type == "int") // half of them need more than 32 bits, some are negative
		return std::to_string((h & 4) ? ((h & 8) ? -(long)(h >> 3) : (long)(h >> 3)) : (long)(h % 100000));
	if (type == "float") {
		snprintf(b, sizeof b, "%a", (double)(h % 1000) / 8.0);
		return b;
	}
	if (type == "bool")
		return (h & 1) ? "true" : "false";
	if (type == "str")
		return "\"" + esc("<" + dec + ">") + "\"";
	return "obj(" + esc(dec).substr(0, 39) + ")";
}

// expected visible events of a text, in input order, from the token map
inline std::vector<Ev> expected_events(const json &schema_opts, const json &chunks)
{
	std::vector<Ev> out;
	for (size_t ci = 0; ci < chunks.size(); ci++) {
		std::vector<std::string> secs; // stack of declared section names
		std::vector<std::string> open_names;
		const json &toks = chunks[ci]["toks"];
		std::string pending_sec;
		std::vector<std::string> fn_args;
		std::string fn_name;
		size_t list_values = 0; // values seen since the last list opening brace
		for (size_t ti = 0; ti < toks.size(); ti++) {
			const json &t = toks[ti];
			std::string role = t[2].get<std::string>(), vt = t[3].get<std::string>();
			std::string opt = t.size() > 6 ? from_json_bytes(t[6].get<std::string>()) : "";
			bool has_dec = t.size() > 7;
			std::string dec = has_dec ? from_json_bytes(t[7].get<std::string>()) : "";
			if (role == "n" && vt == "sec")
				pending_sec = opt;
			else if (role == "p" && vt == "secopen") {
				secs.push_back(pending_sec);
			} else if (role == "p" && vt == "secclose") {
				std::string s = secs.back();
				secs.pop_back();
				const json *d = decl_of(schema_opts, secs, s);
				if (d && d->value("vcb", 0))
					out.push_back({"vcb", s, "", false, ci, ti});
			} else if (role == "n" && vt == "func") {
				fn_name = opt;
				fn_args.clear();
			} else if (role == "a") {
				fn_args.push_back(dec);
			} else if (role == "p" && vt == "fclose") {
				const json *d = decl_of(schema_opts, secs, fn_name);
				if (d && d->value("fn", std::string()) == "sim") {
					std::string a = "argc=" + std::to_string(fn_args.size()) + " [";
					for (auto &x : fn_args)
						a += "\"" + esc(x) + "\",";
					a += "]";
					out.push_back({"fn", fn_name, a, false, ci, ti});
				}
			} else if (role == "p" && vt == "lopen") {
				list_values = 0;
			} else if (role == "v") {
				list_values++;
				if (vt == "str" && t.size() > 5 && t[5].get<int>() != 0 && toks[ti > 1 ? ti - 2 : 0][3] == "kv")
					continue; // value of a free-form key: no declaration, no callbacks
				const json *d = decl_of(schema_opts, secs, opt);
				if (!d)
					continue;
				std::string type = (*d)["t"].get<std::string>();
				bool pcb = d->value("pcb", 0) != 0;
				if (pcb)
					out.push_back({"pcb", opt, dec, false, ci, ti});
				if (d->value("vcb", 0)) {
					std::string rep;
					if (pcb)
						rep = produced_repr(type, dec);
					else if (store::convert_text(type, dec, &rep) != 1)
						rep = "";
					out.push_back({"vcb", opt, rep, false, ci, ti});
				}
			} else if (role == "p" && vt == "lclose") {
				const json *d = decl_of(schema_opts, secs, opt);
				if (d && d->value("vcb", 0) && list_values > 0)
					out.push_back({"vcb", opt, "", true, ci, ti}); // once more at the closing brace of a non-empty list (not required)
			}
		}
	}
	return out;
}

struct Obs {
	std::string kind, opt, rest;
	int verdict;
};

inline std::vector<Obs> observed_events(const OpResult &o)
{
	std::vector<Obs> out;
	for (auto &c : o.cbs) {
		Obs e;
		size_t sp = c.find(' ');
		e.kind = c.substr(0, sp);
		if (e.kind != "pcb" && e.kind != "vcb" && e.kind != "fn")
			continue;
		size_t arrow = c.rfind("->");
		e.verdict = atoi(c.c_str() + arrow + 2);
		std::string body = c.substr(sp + 1, arrow - sp - 1);
		size_t sp2 = body.find(' ');
		e.opt = body.substr(0, sp2);
		e.rest = sp2 == std::string::npos ? "" : body.substr(sp2 + 1);
		out.push_back(e);
	}
	return out;
}

inline bool ev_matches(const Ev &e, const Obs &o, std::string *why)
{
	if (e.kind != o.kind || esc(e.opt) != o.opt) {
		*why = "is " + o.kind + " " + o.opt + " " + o.rest + " but the text demands " + e.kind + " " + e.opt + " " + e.arg + " next";
		return false;
	}
	if (e.kind == "pcb" && o.rest != "\"" + esc(e.arg) + "\"") {
		*why = ": value callback of '" + e.opt + "' received " + o.rest + " but the decoded token is \"" + esc(e.arg) + "\"";
		return false;
	}
	if (e.kind == "fn" && o.rest != e.arg) {
		*why = ": function '" + e.opt + "' received " + o.rest + " but the decoded arguments are " + e.arg;
		return false;
	}
	if (e.kind == "vcb" && !e.arg.empty()) {
		size_t lp = o.rest.find("last=");
		std::string last = lp == std::string::npos ? "" : o.rest.substr(lp + 5);
		if (last != e.arg) {
			*why = ": validator of '" + e.opt + "' saw last value " + last + " but the value just stored is " + e.arg;
			return false;
		}
	}
	return true;
}

// Matches the observed trace against the expectations (optional ones may be skipped).  Returns "" when the whole
// observed trace is what the text demands and every required expectation happened; 'assign' maps each observation
// to its expectation index.  'complete' = false: only the observed prefix must match (a run cut short by a failure).
inline std::string match_trace(const std::vector<Ev> &exp, const std::vector<Obs> &obs, std::vector<size_t> *assign, bool complete)
{
	size_t n = exp.size(), m = obs.size();
	// ok[i][k]: obs[k..] can be matched starting with exp[i]
	std::vector<std::vector<char>> ok(n + 2, std::vector<char>(m + 2, 0));
	std::string why;
	for (size_t i = n + 1; i-- > 0;) {
		for (size_t k = m + 1; k-- > 0;) {
			bool v = false;
			if (k == m) {
				if (!complete)
					v = true;
				else {
					v = true;
					for (size_t j = i; j < n; j++)
						if (!exp[j].optional)
							v = false;
				}
			} else if (i < n) {
				if (ev_matches(exp[i], obs[k], &why) && ok[i + 1][k + 1])
					v = true;
				if (!v && exp[i].optional && ok[i + 1][k])
					v = true;
			}
			ok[i][k] = v;
		}
	}
	if (assign)
		assign->clear();
	if (ok[0][0]) {
		size_t i = 0, k = 0;
		while (k < m) {
			if (ev_matches(exp[i], obs[k], &why) && ok[i + 1][k + 1]) {
				if (assign)
					assign->push_back(i);
				i++;
				k++;
			} else
				i++;
		}
		return "";
	}
	// explain: greedy walk to the first observation that cannot be placed
	size_t i = 0;
	for (size_t k = 0; k < m; k++) {
		size_t j = i;
		std::string w;
		while (j < n && !ev_matches(exp[j], obs[k], &w) && exp[j].optional)
			j++;
		if (j >= n)
			return "invocation #" + std::to_string(k + 1) + " (" + obs[k].kind + " " + obs[k].opt + " " + obs[k].rest + ") has no counterpart in the text";
		if (!ev_matches(exp[j], obs[k], &w))
			return "invocation #" + std::to_string(k + 1) + " " + w;
		i = j + 1;
	}
	for (size_t j = i; j < n; j++)
		if (!exp[j].optional)
			return "the text demands " + exp[j].kind + " " + exp[j].opt + " " + exp[j].arg + " but the callback was never invoked (" + std::to_string(m) + " invocations in total)";
	return "the invocation trace cannot be aligned with the text";
}


} // namespace sim
