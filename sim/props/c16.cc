// C16 — a context owns a private copy of its schema and shares nothing.
// Declarations are heap objects that the simulator poisons (0xDD) and frees right after cfg_init (ASan traps any
// later read).  Two contexts from the same declarations, or two instances of one multi section, are driven by two
// clients whose scripts are interleaved by the schedule; O-solo after every step.
#include "common.h"
#include "store.h"

namespace sim {
namespace {

json wrong_token_text(Rng &r, const json &opts, int flags)
{
	TextGen tg;
	tg.max_items = 3;
	tg.ctx_flags = flags;
	std::vector<Chunk> cs = gen_text(r, opts, tg);
	Chunk b;
	b.t = "= = =\n"; // a clean rejection: never ends inside a string or comment
	cs.push_back(b);
	return chunks_to_json(cs);
}

json generate(uint64_t seed, uint64_t idx, int tier)
{
	Rng r(seed);
	json plan;
	SchemaGen sg;
	sg.funcs = r.chance(1, 3);
	sg.pcb = r.chance(1, 3);
	sg.ptrs = r.chance(1, 4);
	sg.keystrval = true;
	sg.max_opts = 5;
	sg.max_depth = 2;
	sg.string_defaults_hostile = true;
	sg.decl_comments = true;
	json schema = gen_schema(r, sg);
	bool instances = idx % 3 == 2;
	if (instances) {
		// a multi section at top level whose two instances play the two parties
		SchemaGen sub = sg;
		sub.max_depth = 1;
		sub.max_opts = 5;
		json inner = gen_schema(r, sub);
		json inst = {{"n", "inst"}, {"t", "sec"}, {"fl", F_MULTI | F_TITLE}, {"sub", inner["opts"]}};
		schema["opts"].push_back(inst);
	}
	plan["schemas"] = json::array({schema});
	plan["knobs"] = {{"poison", true}, {"fill", r.chance(1, 2) ? 0xA5 : 0xFF}};
	plan["world"] = {{"fs", json::array({{{"path", "/a"}, {"kind", "dir"}}, {{"path", "/b"}, {"kind", "dir"}}, fs_file("/a/f.conf", "# in /a\n"), fs_file("/b/f.conf", "# in /b\n"), fs_file("/a/only_a.conf", "# only in /a\n")})}};
	int flags = (r.chance(1, 3) ? F_COMMENTS : 0) | (r.chance(1, 6) ? F_NOCASE : 0);
	json steps = json::array();
	ApiGen ag;
	ag.illegal = false;
	ag.hostile_strings = true;
	int maxops = tier ? 20 : 12;
	if (!instances) {
		// one party in four installs no error function of its own: its diagnostics go to stderr, not to the other's function
		bool quiet1 = r.chance(1, 4);
		for (int cl = 0; cl < 2; cl++) {
			json init = step(cl, "init", 0);
			init["flags"] = flags;
			init["keep"] = 1;
			if (cl == 1 && quiet1)
				init["noerrfn"] = 1;
			steps.push_back(init);
		}
		if (r.chance(1, 4)) {
			// a third context whose creation runs out of memory: the library must not release what the caller owns
			json init = step(0, "init", 5);
			init["flags"] = flags;
			init["falloc"] = (uint64_t)r.range(1, 60);
			steps.push_back(init);
			steps.push_back(step(0, "free", 5));
		}
		std::vector<std::vector<OptRef>> refs = {collect_opts(r, schema["opts"]), collect_opts(r, schema["opts"])};
		std::vector<std::string> paths; // schema paths for callback registration
		for_each_opt(schema["opts"], [&](const std::vector<std::string> &path, const json &o) {
			std::string p;
			for (auto &s : path)
				p += s + "|";
			paths.push_back(p + o["n"].get<std::string>());
		});
		int n = (int)r.range(3, maxops);
		for (int i = 0; i < n; i++) {
			int cl = (int)r.below(2);
			unsigned k = (unsigned)r.below(100);
			if (k < 35) {
				TextGen tg;
				tg.max_items = 4;
				tg.ctx_flags = flags;
				tg.hostile = true;
				json p = step(cl, "parse", 0);
				p["src"] = {{"kind", r.chance(1, 4) ? "fp" : "buf"}, {"chunks", chunks_to_json(gen_text(r, schema["opts"], tg))}};
				steps.push_back(p);
			} else if (k < 41) {
				json p = step(cl, "parse", 0);
				p["src"] = {{"kind", "buf"}, {"chunks", wrong_token_text(r, schema["opts"], flags)}};
				steps.push_back(p);
			} else if (k < 45) {
				// a text the scanner itself gives up on, in the middle of a string or comment: the scanner is one per
				// process, the other context's next parse must not find it in that state
				static const char *stuck[] = {"\"zz\\777", "\"zz\\9", "'never closed", "/* never closed", "\"never closed", "\"x\\"};
				steps.push_back(parse_step(cl, 0, r.chance(1, 4) ? "fp" : "buf", stuck[r.below(6)]));
			} else if (k < 85)
				steps.push_back(gen_api_step(r, cl, 0, refs[cl], ag));
			else if (k < 93 && !paths.empty()) {
				json s = step(cl, r.chance(1, 2) ? "setvalidate" : "setprintfunc", 0);
				s["name"] = r.pick(paths);
				steps.push_back(s);
			} else if (k < 94)
				steps.push_back(step(cl, "print", 0));
			else if (k < 95) {
				// a search path: every section instance borrows the pointer, none may release it
				json a = step(cl, "addpath", 0);
				a["dir"] = r.chance(1, 2) ? "/a" : "/b";
				steps.push_back(a);
			}
			else if (k < 97) {
				// a single section removed and created again must come back with its declared defaults
				std::vector<std::string> singles;
				for (auto &o : schema["opts"])
					if (o["t"] == "sec" && !(o.value("fl", 0) & (F_MULTI | F_TITLE)))
						singles.push_back(o["n"].get<std::string>());
				if (!singles.empty()) {
					std::string name = r.pick(singles);
					json rm = step(cl, "rmsec", 0);
					rm["name"] = name;
					steps.push_back(rm);
					json p = parse_step(cl, 0, "buf", name + " { }\n");
					p["recreated"] = name;
					steps.push_back(p);
				}
			}
			else {
				// one party goes away and comes back: the other must not notice
				steps.push_back(step(cl, "free", 0));
				json init = step(cl, "init", 0);
				init["flags"] = flags;
				if (cl == 1 && quiet1)
					init["noerrfn"] = 1;
				steps.push_back(init);
			}
		}
		// whatever free-form sections were filled meanwhile, an undeclared key at the top is still refused
		for (int cl = 0; cl < 2; cl++)
			if (r.chance(1, 2)) {
				json p = parse_step(cl, 0, "buf", "nosuch_zz_key = 1\n");
				p["unknownprobe"] = 1;
				steps.push_back(p);
			}
		plan["params"] = {{"mode", "contexts"}};
	} else {
		json init = step(0, "init", 0);
		init["flags"] = flags;
		init["keep"] = 1;
		init["shared"] = 1;
		steps.push_back(init);
		if (r.chance(1, 2)) {
			// the context has a search path of its own before the instances exist: they borrow it
			json a = step(0, "addpath", 0);
			a["dir"] = "/b";
			a["shared"] = 1;
			a["keep"] = 1;
			steps.push_back(a);
		}
		for (const char *t : {"A", "B"}) {
			json a = step(0, "addtsec", 0);
			a["name"] = "inst";
			a["title"] = t;
			a["shared"] = 1;
			a["keep"] = 1;
			steps.push_back(a);
		}
		const json &inner = schema["opts"].back()["sub"];
		std::vector<std::vector<OptRef>> refs = {collect_opts(r, inner), collect_opts(r, inner)};
		std::vector<std::string> ipaths; // schema paths inside an instance, for callback registration through the instance
		for_each_opt(inner, [&](const std::vector<std::string> &path, const json &o) {
			std::string p;
			for (auto &x : path)
				p += x + "|";
			ipaths.push_back(p + o["n"].get<std::string>());
		});
		int n = (int)r.range(3, maxops);
		for (int i = 0; i < n; i++) {
			int cl = (int)r.below(2);
			unsigned k = (unsigned)r.below(100);
			if (k >= 40 && k < 48) {
				// a print filter installed on one instance only
				json s = step(cl, "setprintfilter", 0);
				s["at"] = json::array({json::array({"inst", cl})});
				s["owner"] = 0;
				steps.push_back(s);
				continue;
			}
			if (k >= 48 && k < 56) {
				// a search directory added to one instance is that instance's; the sibling looking a file up must not find it there
				json s = step(cl, k < 52 ? "addpath" : "searchpath", 0);
				s["at"] = json::array({json::array({"inst", cl})});
				if (k < 52)
					s["dir"] = "/a";
				else
					s["name"] = "only_a.conf";
				s["owner"] = 0;
				steps.push_back(s);
				continue;
			}
			if (k < 15 && !ipaths.empty()) {
				// callbacks registered through one instance must stay private to it
				json s = step(cl, r.chance(2, 3) ? "setvalidate" : "setprintfunc", 0);
				s["at"] = json::array({json::array({"inst", cl})});
				s["name"] = r.pick(ipaths);
				s["owner"] = 0;
				steps.push_back(s);
				continue;
			}
			if (k < 40) {
				// the party re-writes its own instance from a text (parsed at the root: the titled instance is re-created in place)
				TextGen tg;
				tg.max_items = 4;
				tg.ctx_flags = flags;
				tg.comments = 0;
				tg.multiline = false;
				std::vector<Chunk> body = gen_text(r, inner, tg);
				Chunk whole;
				whole.t = std::string("inst \"") + (cl == 0 ? "A" : "B") + "\" {\n" + chunks_text(body) + "}\n";
				json p = step(cl, "parse", 0);
				p["src"] = {{"kind", "buf"}, {"chunks", chunks_to_json({whole})}};
				p["owner"] = 0;
				steps.push_back(p);
				continue;
			}
			json s = gen_api_step(r, cl, 0, refs[cl], ag);
			json at = json::array({json::array({"inst", cl})});
			if (s.contains("at"))
				for (auto &x : s["at"])
					at.push_back(x);
			s["at"] = at;
			s["owner"] = 0;
			steps.push_back(s);
		}
		// the whole context printed at the end: each party's block must look as in its solo run
		{
			json pr = step(0, "print", 0);
			pr["shared"] = 1;
			pr["finalprint"] = 1;
			steps.push_back(pr);
		}
		// creating further instances must still find the declared sub-options and defaults
		if (r.chance(1, 2)) {
			json a = step(0, "addtsec", 0);
			a["name"] = "inst";
			a["title"] = "C";
			a["shared"] = 1;
			steps.push_back(a);
		}
		plan["params"] = {{"mode", "instances"}};
	}
	plan["steps"] = steps;
	plan["frozen"] = json::array({"schemas"});
	return plan;
}

std::string full_outcome(const OpResult &o)
{
	std::string s = outcome(o);
	for (auto &c : o.cbs)
		s += "\ncb " + c;
	return s;
}

const json *subtree(const json &tree, const std::string &name, size_t idx)
{
	if (!tree.is_object())
		return nullptr;
	for (auto &o : tree["opts"])
		if (o["n"] == name && o["t"] == "sec" && idx < o["s"].size())
			return &o["s"][idx]["cfg"];
	return nullptr;
}

JudgeOut judge(const json &plan)
{
	JudgeOut out;
	ExecOpts eo;
	eo.want_tree = true;
	eo.errno_override = 0; // ambient errno pinned: C04/C08 mechanisms cannot fire here
	RunResult r = execute(plan, eo);
	add_exec_counters(out, r);
	note_schedule(out, plan);
	death_and_stdout(r, "", out.viol);
	out.viol.erase(std::remove_if(out.viol.begin(), out.viol.end(), [](const Violation &v) { return v.cls.compare(0, 7, "stdout:") == 0 || v.cls.compare(0, 6, "stdin:") == 0; }), out.viol.end());
	// abort() inside a context creation whose allocation was made to fail is C18's to report (repaired by d28ed42; C18 raises it again should it return), not this property's
	for (auto &o : r.ops)
		if (o.death == D_ABORT && o.fail_fired) {
			out.viol.erase(std::remove_if(out.viol.begin(), out.viol.end(), [](const Violation &v) { return v.cls.compare(0, 12, "death:abort:") == 0; }), out.viol.end());
			out.k.add("abort_on_injected_allocation_failure_owned_by_C18");
			return out;
		}
	std::string mode = plan.contains("params") ? plan["params"].value("mode", std::string("contexts")) : "contexts";
	out.k.add("mode." + mode);
	// schedule fingerprint: the client / op-kind sequence
	std::string sched;
	for (auto &st : plan["steps"])
		sched += std::to_string(st.value("cl", 0)) + st["op"].get<std::string>().substr(0, 3) + ",";
	out.distinct.push_back(fnv64(sched + std::to_string(plan_fingerprint(plan))));
	out.k.add("probe.declarations_poisoned_and_freed");
	if (r.died)
		return out;
	for (auto &o : r.ops)
		if (o.op == "init" && o.fail_fired)
			out.k.add("probe.context_creation_ran_out_of_memory");
	for (auto &c : r.conservation)
		if (c.compare(0, 21, "declarations-modified") == 0)
			out.viol.push_back({"library-wrote-to-callers-declarations", "cfg_init() changed the caller's declaration arrays: every context created from them later inherits the change", nullptr});
	for (auto &c : r.conservation)
		if (c.compare(0, 12, "foreign-free") == 0)
			out.viol.push_back({"library-freed-callers-memory", "the library released memory it does not own (" + c + "): the caller's declarations are not the library's to free", nullptr});
	const json &steps = plan["steps"];
	// an undeclared key is refused at the top of a context exactly as in a context that has seen nothing else
	for (size_t i = 0; i < steps.size(); i++) {
		if (!steps[i].value("unknownprobe", 0))
			continue;
		const OpResult *o = nullptr;
		for (auto &x : r.ops)
			if (x.index == (int)i)
				o = &x;
		const json *init = nullptr;
		for (auto &s0 : steps)
			if (s0["op"] == "init" && s0.value("cl", 0) == steps[i].value("cl", 0) && s0.value("c", 0) == steps[i].value("c", 0) && !s0.contains("falloc")) {
				init = &s0;
				break;
			}
		if (!o || o->skipped || !init)
			continue;
		json fresh = plan;
		fresh["steps"] = json::array({*init, steps[i]});
		fresh.erase("params");
		RunResult fr = execute(fresh, eo);
		add_exec_counters(out, fr);
		if (fr.ops.size() < 2 || fr.died)
			continue;
		out.k.add("probe.undeclared_key_probe");
		if ((o->ret == 0) != (fr.ops[1].ret == 0)) {
			out.viol.push_back({"free-form-leak:undeclared_key", "an undeclared key at the top of the context is " + std::string(o->ret == 0 ? "accepted" : "refused") + " after the history but " +
										   std::string(fr.ops[1].ret == 0 ? "accepted" : "refused") + " by a context that has seen nothing else: being free-form leaked from a section instance",
					    nullptr});
			break;
		}
	}
	// a re-created single section equals the one cfg_init() created
	{
		std::map<int, json> init_tree;
		for (auto &o : r.ops) {
			if (o.index < 0 || (size_t)o.index >= steps.size())
				continue;
			const json &st = steps[o.index];
			int key = o.client * 1000 + o.ctx;
			if (o.op == "init" && !o.tree.is_null())
				init_tree[key] = o.tree;
			if (st.contains("recreated") && o.ret == 0 && init_tree.count(key) && !o.tree.is_null()) {
				std::string name = st["recreated"].get<std::string>();
				const json *a = subtree(init_tree[key], name, 0), *b = subtree(o.tree, name, 0);
				if (a && b) {
					out.k.add("probe.single_section_recreated");
					if (*a != *b)
						out.viol.push_back({"recreated-section-differs", "single section '" + name + "' removed and created again does not have the declared sub-options and defaults\n  from cfg_init: " + a->dump().substr(0, 400) +
													 "\n  re-created:    " + b->dump().substr(0, 400),
								    nullptr});
				}
			}
		}
	}
	for (int cl = 0; cl < 2 && out.viol.empty(); cl++) {
		ExecOpts so = eo;
		so.only_client = cl;
		RunResult solo = execute(plan, so);
		add_exec_counters(out, solo);
		size_t j = 0;
		for (auto &o : r.ops) {
			if (o.op == "end" || o.index < 0 || (size_t)o.index >= steps.size())
				continue;
			const json &st = steps[o.index];
			if (o.client != cl || st.value("shared", 0))
				continue;
			while (j < solo.ops.size() && solo.ops[j].index != o.index)
				j++;
			if (j >= solo.ops.size())
				break;
			const OpResult &so_ = solo.ops[j];
			out.k.add("probe.step_compared_with_solo_run");
			if (mode == "contexts") {
				if (full_outcome(o) != full_outcome(so_)) {
					out.viol.push_back({"O-solo:contexts:" + o.op, "client " + std::to_string(cl) + " step #" + std::to_string(o.index) + " (" + o.op + ") differs from the client's solo run: the other context influenced it\n  interleaved: " +
												full_outcome(o).substr(0, 600) + "\n  solo:        " + full_outcome(so_).substr(0, 600),
							    nullptr});
					break;
				}
			} else {
				if (o.cbs != so_.cbs) {
					std::string a, b;
					for (auto &c : o.cbs)
						a += c + "; ";
					for (auto &c : so_.cbs)
						b += c + "; ";
					out.viol.push_back({"O-solo:instances:callbacks:" + o.op, "instance " + std::to_string(cl) + " step #" + std::to_string(o.index) + " (" + o.op + "): the callbacks invoked differ from the run in which only this instance was touched: a callback registered through the sibling instance is shared\n  interleaved: " +
														  a.substr(0, 400) + "\n  solo:        " + b.substr(0, 400),
							    nullptr});
					break;
				}
				if (o.skipped != so_.skipped || o.ret != so_.ret) {
					out.viol.push_back({"O-solo:instances:ret:" + o.op, "instance " + std::to_string(cl) + " step #" + std::to_string(o.index) + " (" + o.op + ") returns " + std::to_string(o.ret) + " interleaved but " + std::to_string(so_.ret) + " solo", nullptr});
					break;
				}
				const json *a = subtree(o.tree, "inst", (size_t)cl), *b = subtree(so_.tree, "inst", (size_t)cl);
				if (a && b && *a != *b) {
					out.viol.push_back({"O-solo:instances:" + o.op, "instance " + std::to_string(cl) + " of the multi section differs after step #" + std::to_string(o.index) + " (" + o.op +
													") from the run in which only this instance was touched: sibling instances share state\n  interleaved: " + a->dump().substr(0, 500) +
													"\n  solo:        " + b->dump().substr(0, 500),
							    nullptr});
					break;
				}
			}
		}
	}
	// printed text: the block of each instance in the print of the whole context equals the block in the party's solo run
	if (mode == "instances" && out.viol.empty()) {
		auto block_of = [](const std::string &text, const std::string &title) {
			std::string head = "inst \"" + title + "\" {\n";
			size_t p = text.find(head);
			if (p == std::string::npos || (p != 0 && text[p - 1] != '\n'))
				return std::string("<absent>");
			size_t e = text.find("\n}\n", p);
			return e == std::string::npos ? text.substr(p) : text.substr(p, e - p + 3);
		};
		const OpResult *fp_all = nullptr;
		for (auto &o : r.ops)
			if (o.index >= 0 && (size_t)o.index < steps.size() && steps[o.index].value("finalprint", 0))
				fp_all = &o;
		for (int cl = 0; cl < 2 && fp_all && out.viol.empty(); cl++) {
			ExecOpts so = eo;
			so.only_client = cl;
			RunResult solo = execute(plan, so);
			add_exec_counters(out, solo);
			for (auto &o : solo.ops)
				if (o.index == fp_all->index) {
					std::string title = cl == 0 ? "A" : "B";
					std::string a = block_of(fp_all->sres, title), b = block_of(o.sres, title);
					out.k.add("probe.printed_block_compared_with_solo_run");
					if (a != b)
						out.viol.push_back({"O-solo:instances:print", "the printed block of instance \"" + title + "\" differs from the run in which only this instance was touched (a print filter or callback of the sibling leaks)\n  interleaved: " +
												      esc(a).substr(0, 400) + "\n  solo:        " + esc(b).substr(0, 400),
								    nullptr});
				}
		}
	}
	// a third instance created at the end must equal a pristine one (declared sub-options and defaults)
	if (mode == "instances" && out.viol.empty()) {
		const OpResult *last_add = nullptr;
		for (auto &o : r.ops)
			if (o.op == "addtsec" && o.index > 2 && o.ret == 0)
				last_add = &o;
		if (last_add) {
			json pristine = plan;
			json ss = json::array();
			for (auto &st : steps)
				if (st.value("shared", 0) && !(st["op"] == "addtsec" && st["title"] == "C"))
					ss.push_back(st);
			pristine["steps"] = ss;
			RunResult pr = execute(pristine, eo);
			add_exec_counters(out, pr);
			const json *fresh = subtree(last_add->tree, "inst", 2);
			const json *ref = nullptr;
			for (auto &po : pr.ops)
				if (!po.tree.is_null() && subtree(po.tree, "inst", 1))
					ref = subtree(po.tree, "inst", 1);
			if (fresh && ref) {
				out.k.add("probe.third_instance_created_late");
				if (*fresh != *ref)
					out.viol.push_back({"late-instance-differs", "a section instance created after its siblings were modified does not have the declared defaults\n  late:     " + fresh->dump().substr(0, 500) + "\n  pristine: " + ref->dump().substr(0, 500), nullptr});
			}
		}
	}
	return out;
}

Property P = [] {
	Property p;
	p.id = "C16";
	p.level = "exploration";
	p.rule = "seeded schemas (nested / multi / free-form sections, string and parsed list defaults, callbacks); the declaration arrays and every string in them are overwritten with 0xDD "
		 "and freed right after cfg_init() in every run; two of three runs: two contexts from the same declarations driven by two clients with interleaved scripts (accepted "
		 "parses, cleanly rejected parses, setters, annotations, callback registration by path, print, free + re-init); one of three: two instances of one multi section of one "
		 "context driven by two parties, then a third instance created late; every step is compared with the party's solo run; distinct = distinct (schedule, plan) pairs";
	p.assumptions = {"options bound to caller variables (CFG_SIMPLE_*) are not generated: sharing the caller's variable is their contract",
			 "ambient errno is pinned to 0 and texts never end inside a string or comment, so the mechanisms of C08/C04 cannot fire here"};
	p.probes = {"declarations_poisoned_and_freed", "step_compared_with_solo_run", "third_instance_created_late", "single_section_recreated", "context_creation_ran_out_of_memory", "printed_block_compared_with_solo_run"};
	p.components = {{"confuse.c cfg_dupopt_array / cfg_setopt section copy / cfg_free_opt_array", "real"}, {"declaration memory", "stub: owned, poisoned and freed by the simulator"}, {"scheduler", "stub: seeded interleaving of two clients"}};
	p.quick_seconds = 20;
	p.thorough_seconds = 300;
	p.generate = generate;
	p.judge = judge;
	return p;
}();
Registrar reg(&P);

} // namespace
} // namespace sim
