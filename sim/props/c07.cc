// C07 — everything acquired is released exactly once on every path.
// (i) a valid text with the source cut / a token corrupted at every token position (also inside an included
// file); (ii) API histories.  Oracle: conservation at the end of every run (DESIGN 6.4) + ASan.
#include "common.h"

namespace sim {
namespace {

const char *REPL[] = {"", "}", "{", "=", "\"", "zz z", "(", ")", ",", "'", "+=", "/*"};
const int NREPL = sizeof(REPL) / sizeof(REPL[0]);

json gen_family_text(Rng &r, int tier)
{
	json plan;
	SchemaGen sg;
	sg.funcs = true;
	sg.include = true;
	sg.ptrs = true;
	sg.pcb = r.chance(1, 2);
	sg.vcb = r.chance(1, 3);
	sg.keystrval = true;
	sg.simple = true;
	sg.max_opts = 6;
	json schema = gen_schema(r, sg);
	plan["schemas"] = json::array({schema});
	int flags = (r.chance(1, 2) ? F_COMMENTS : 0) | (r.chance(1, 8) ? F_IGNORE_UNKNOWN : 0) | (r.chance(1, 8) ? F_NOCASE : 0);
	TextGen tg;
	tg.max_items = tier ? 8 : 6;
	tg.ctx_flags = flags;
	tg.comments = 1;
	tg.include_targets = {"/inc/a.conf", "/inc/a.conf", "/inc", "/inc/nope.conf", "/inc/self.conf", "~nouser/a.conf", "~/a.conf", "~inc/a.conf"}; // also a directory, a missing file and a file that includes itself (refused at the depth limit)
	std::vector<Chunk> main_chunks = gen_text(r, schema["opts"], tg);
	TextGen tg2 = tg;
	tg2.include_targets = {"/inc/b.conf"};
	tg2.max_items = 4;
	std::vector<Chunk> inc_chunks = gen_text(r, schema["opts"], tg2);
	json fs = json::array();
	fs.push_back({{"path", "/inc/a.conf"}, {"kind", "file"}, {"chunks", chunks_to_json(inc_chunks)}});
	fs.push_back(fs_file("/inc/b.conf", "# leaf\n"));
	fs.push_back(fs_file("/inc/self.conf", "# again\ninclude(\"/inc/self.conf\")\n"));
	fs.push_back({{"path", "/inc"}, {"kind", "dir"}});
	// the account database knows "inc" (home /inc) and uid 0, but no "nouser"
	plan["world"] = {{"fs", fs}, {"env", {{"X", "1"}}}, {"passwd", json::array({{{"name", "inc"}, {"uid", 1000}, {"dir", "/inc"}}, {{"name", "root"}, {"uid", 0}, {"dir", "/inc"}}})}, {"euid", r.chance(1, 2) ? 0 : 4242}};
	plan["knobs"] = {{"fill", r.chance(1, 2) ? 0xA5 : 0x00}, {"tty", r.chance(1, 6)}, {"recycle", r.chance(1, 2)}};
	json steps = json::array();
	json init = step(0, "init", 0);
	init["flags"] = flags;
	steps.push_back(init);
	if (r.chance(1, 3)) {
		json a = step(0, "addpath", 0);
		a["dir"] = "/inc";
		steps.push_back(a);
	}
	json p = step(0, "parse", 0);
	p["src"] = {{"kind", r.chance(1, 3) ? "fp" : "buf"}, {"chunks", chunks_to_json(main_chunks)}};
	p["faulted"] = 1;
	steps.push_back(p);
	steps.push_back(step(0, "print", 0));
	// parse again after the (possibly failed) parse
	TextGen tg3 = tg;
	tg3.max_items = 3;
	tg3.include_targets.clear();
	std::vector<Chunk> again = gen_text(r, schema["opts"], tg3);
	std::vector<Chunk> again2;
	for (auto &c : again)
		if (c.t.find("include") == std::string::npos)
			again2.push_back(c);
	json p2 = step(0, "parse", 0);
	p2["src"] = {{"kind", "buf"}, {"chunks", chunks_to_json(again2)}};
	steps.push_back(p2);
	if (r.chance(1, 2)) {
		std::vector<OptRef> refs = collect_opts(r, schema["opts"]);
		ApiGen ag;
		int n = (int)r.range(1, 3);
		for (int i = 0; i < n; i++)
			steps.push_back(gen_api_step(r, 0, 0, refs, ag));
	}
	plan["steps"] = steps;
	plan["params"] = {{"enumerate", "cut"}, {"family", "text"}, {"tier", tier}};
	return plan;
}

json gen_family_api(Rng &r, int tier)
{
	json plan;
	SchemaGen sg;
	sg.funcs = true;
	sg.include = r.chance(1, 2);
	sg.ptrs = true;
	sg.pcb = r.chance(1, 2);
	sg.vcb = r.chance(1, 3);
	sg.vcb2 = r.chance(1, 3);
	sg.keystrval = true;
	sg.simple = true;
	sg.max_opts = 6;
	json schema = gen_schema(r, sg);
	plan["schemas"] = json::array({schema});
	json fs = json::array();
	fs.push_back(fs_file("/inc/a.conf", "# empty\n"));
	fs.push_back({{"path", "/inc"}, {"kind", "dir"}});
	plan["world"] = {{"fs", fs}};
	plan["knobs"] = {{"fill", r.chance(1, 2) ? 0xA5 : 0x00}};
	int flags = (r.chance(1, 2) ? F_COMMENTS : 0) | (r.chance(1, 8) ? F_IGNORE_UNKNOWN : 0);
	json steps = json::array();
	int nctx = r.chance(1, 4) ? 2 : 1;
	for (int c = 0; c < nctx; c++) {
		json init = step(0, "init", c);
		init["flags"] = flags;
		steps.push_back(init);
		if (r.chance(1, 2)) {
			json a = step(0, "addpath", c);
			a["dir"] = r.chance(1, 2) ? "/inc" : "/other";
			steps.push_back(a);
		}
	}
	std::vector<OptRef> refs = collect_opts(r, schema["opts"]);
	ApiGen ag;
	ag.getters = true;
	int n = (int)r.range(2, tier ? 16 : 12);
	for (int i = 0; i < n; i++) {
		int c = (int)r.below(nctx);
		unsigned k = (unsigned)r.below(100);
		if (k < 65)
			steps.push_back(gen_api_step(r, 0, c, refs, ag));
		else if (k < 90) {
			TextGen tg;
			tg.max_items = 4;
			tg.ctx_flags = flags;
			tg.include_targets = {"/inc/a.conf", "/inc/a.conf", "/inc"};
			json p = step(0, "parse", c);
			p["src"] = {{"kind", r.chance(1, 3) ? "fp" : "buf"}, {"chunks", chunks_to_json(gen_text(r, schema["opts"], tg))}};
			if (k >= 80 && !p["src"]["chunks"].empty()) {
				// corrupt it
				const json &cs = p["src"]["chunks"];
				size_t ci = r.below(cs.size());
				size_t nt = cs[ci]["toks"].size();
				if (nt) {
					size_t ti = r.below(nt);
					if (r.chance(1, 2))
						p["src"]["cutat"] = json::array({ci, ti, (long)r.range(0, 2)});
					else
						p["src"]["mut"] = json::array({ci, ti, REPL[r.below(NREPL)]});
				}
			}
			steps.push_back(p);
		} else if (k < 95)
			steps.push_back(step(0, "print", c));
		else if (k < 98)
			steps.push_back(step(0, "restart", c));
		else {
			steps.push_back(step(0, "free", c));
			json init = step(0, "init", c);
			init["flags"] = flags;
			steps.push_back(init);
		}
	}
	plan["steps"] = steps;
	plan["params"] = {{"family", "api"}};
	return plan;
}

json generate(uint64_t seed, uint64_t idx, int tier)
{
	Rng r(seed);
	if (idx % 2 == 0)
		return gen_family_text(r, tier);
	return gen_family_api(r, tier);
}

void check_run(const json &plan, JudgeOut &out, const std::string &ctx)
{
	RunResult r = execute(plan);
	add_exec_counters(out, r);
	std::vector<Violation> v;
	death_and_stdout(r, "", v);
	for (auto &x : v)
		if (x.cls.compare(0, 6, "death:") == 0) {
			x.plan = plan;
			out.viol.push_back(x);
		}
	for (auto &c : r.conservation) {
		std::string what = c.substr(0, c.find(" x"));
		out.viol.push_back({what, "at the end of the run (all contexts freed): " + c + (ctx.empty() ? "" : " [" + ctx + "]"), plan});
	}
	// reach
	for (auto &o : r.ops) {
		if (o.op == "parse" && o.ret != 0) {
			out.k.add("rejected_parses");
			if (!o.diags.empty() && o.diags[0].file.compare(0, 5, "/inc/") == 0)
				out.k.add("probe.parse_rejected_inside_included_file");
		}
		for (auto &cb : o.cbs) {
			if (cb.compare(0, 3, "fcb") == 0)
				out.k.add("probe.release_callback_invoked");
			if (cb.compare(0, 3, "fn ") == 0)
				out.k.add("function_calls");
		}
		if ((o.op == "rmnsec" || o.op == "rmtsec" || o.op == "rmsec") && o.ret == 0)
			out.k.add("probe.section_removed");
	}
}

struct Target {
	std::string ptr; // json pointer of the source object
	const json *src;
};

JudgeOut judge(const json &plan)
{
	JudgeOut out;
	bool enumerate = plan.contains("params") && plan["params"].contains("enumerate");
	if (!enumerate) {
		check_run(plan, out, "");
		out.distinct.push_back(plan_fingerprint(plan));
		if (plan.contains("params") && plan["params"].value("family", "") == "api")
			out.k.add("api_histories");
		return out;
	}
	int tier = plan["params"].value("tier", 0);
	// baseline (undamaged text)
	json basep = plan;
	basep["params"].erase("enumerate");
	check_run(basep, out, "undamaged text");
	out.k.add("texts");
	if (!out.viol.empty())
		return out;
	std::vector<Target> targets;
	for (size_t i = 0; i < plan["steps"].size(); i++)
		if (plan["steps"][i].value("faulted", 0) && plan["steps"][i].contains("src"))
			targets.push_back({"/steps/" + std::to_string(i) + "/src", &plan["steps"][i]["src"]});
	if (plan.contains("world") && plan["world"].contains("fs"))
		for (size_t i = 0; i < plan["world"]["fs"].size(); i++)
			if (plan["world"]["fs"][i].contains("chunks"))
				targets.push_back({"/world/fs/" + std::to_string(i), &plan["world"]["fs"][i]});
	uint64_t fp = plan_fingerprint(plan);
	std::set<std::string> seen;
	for (auto &t : targets) {
		const json &cs = (*t.src)["chunks"];
		for (size_t ci = 0; ci < cs.size(); ci++) {
			const json &toks = cs[ci]["toks"];
			for (size_t ti = 0; ti < toks.size(); ti++) {
				long len = (long)(toks[ti][1].get<size_t>() - toks[ti][0].get<size_t>());
				std::vector<json> faults;
				faults.push_back({{"key", "cutat"}, {"value", json::array({ci, ti, 0})}});
				faults.push_back({{"key", "cutat"}, {"value", json::array({ci, ti, len})}});
				if (len > 1)
					faults.push_back({{"key", "cutat"}, {"value", json::array({ci, ti, 1})}});
				int nrep = tier ? NREPL : 3;
				for (int k = 0; k < nrep; k++) {
					const char *rep = REPL[tier ? k : (int)((ci * 31 + ti * 7 + k * 5 + fp) % NREPL)];
					faults.push_back({{"key", "mut"}, {"value", json::array({ci, ti, rep})}});
				}
				for (auto &f : faults) {
					std::string key = f["key"].get<std::string>();
					json p2 = basep;
					p2[json::json_pointer(t.ptr)][key] = f["value"];
					note_subcase(json::array({{{"op", "add"}, {"path", t.ptr + "/" + key}, {"value", f["value"]}}, {{"op", "remove"}, {"path", "/params/enumerate"}}}));
					out.k.add(key == "cutat" ? "fault.cut.fired" : "fault.token_corruption.fired");
					if (t.ptr.compare(0, 6, "/world") == 0)
						out.k.add("probe.fault_inside_included_file");
					out.distinct.push_back(mix(mix(fp, fnv64(t.ptr + key)), fnv64(f["value"].dump())));
					size_t before = out.viol.size();
					check_run(p2, out, key + " " + f["value"].dump());
					// one plan per class per text
					for (size_t i = before; i < out.viol.size();) {
						if (!seen.insert(out.viol[i].cls).second)
							out.viol.erase(out.viol.begin() + i);
						else
							i++;
					}
				}
			}
		}
	}
	return out;
}

Property P = [] {
	Property p;
	p.id = "C07";
	p.level = "fault_enumeration";
	p.rule = "even runs: a seeded schema (pointer options with release callback, function options, lists, nested/titled/free-form sections, include) and a rendered valid text, "
		 "possibly including a file; for EVERY token of the text and of the included file the source is cut before / inside / after the token and the token is replaced by 3 "
		 "(quick) or 12 (thorough) wrong tokens, each followed by print, a second parse and free; odd runs: seeded API histories (2-16 steps: setters, bulk set, list "
		 "set/append, section add/remove, annotation, search path, parses of valid and corrupted texts, print, restart, free+re-init); distinct = distinct (text, fault) pairs "
		 "plus distinct API histories";
	p.assumptions = {"the enumeration over cut / corruption points is complete per generated text; texts and histories are sampled",
			 "leaks are counted exactly by the simulator's live-block table (allocations of confuse.c and of the scanner), streams by the fopen/fmemopen/fclose seam, "
			 "pointer values by the simulator's release callback; double free / use after free by ASan"};
	p.probes = {"parse_rejected_inside_included_file", "release_callback_invoked", "section_removed", "fault_inside_included_file"};
	p.components = {{"confuse.c", "real"}, {"lexer.l (flex 2.6.4 generated)", "real"}, {"allocator", "stub: accounting wrappers over the real (ASan) heap"},
			{"streams / file namespace", "stub: fopencookie streams over an in-memory tree"}, {"user callbacks (parse, release, function, validate)", "stub: simulator parties"}};
	p.quick_seconds = 25;
	p.thorough_seconds = 600;
	p.generate = generate;
	p.judge = judge;
	return p;
}();
Registrar reg(&P);

} // namespace
} // namespace sim
