// C13 — including a file equals reading its text in place.
// An accepted rendered text is split at item boundaries into a tree of files in the simulated file system
// (absolute, search-path-relative and tilde names).  O-flat: dump(split) == dump(flat).  Position restoration,
// failing targets, depth limit, repeated failing includes followed by a good one (DESIGN 7/C13).
#include "common.h"
#include "inctree.h"

namespace sim {
namespace {

json base_schema(Rng &r)
{
	SchemaGen sg;
	sg.funcs = r.chance(1, 3);
	sg.include = true;
	sg.ptrs = false;
	sg.pcb = r.chance(1, 4);
	sg.keystrval = true;
	sg.max_opts = 6;
	return gen_schema(r, sg);
}

json generate(uint64_t seed, uint64_t idx, int tier)
{
	Rng r(seed);
	json plan;
	json schema = base_schema(r);
	plan["schemas"] = json::array({schema});
	int flags = (r.chance(1, 3) ? F_COMMENTS : 0) | (r.chance(1, 8) ? F_NOCASE : 0);
	TextGen tg;
	tg.max_items = tier ? 10 : 7;
	tg.ctx_flags = flags;
	tg.skip_include = true;
	tg.comments = (int)r.below(3);
	std::vector<Chunk> flat = gen_text(r, schema["opts"], tg);
	Tree t;
	int params_body_includes = 0;
	t.mode = (int)r.below(3);
	unsigned kind = (unsigned)(idx % 4); // 0,1 flat equivalence; 2 fault; 3 history
	int maxdepth = (int)r.range(1, kind == 0 ? 9 : 4);
	// half of the plans also move section bodies into files (include inside a section body)
	if (r.chance(1, 2))
		for (auto &c : flat)
			if (r.chance(1, 2) && split_section_body(r, t, c, schema["opts"]))
				params_body_includes++;
	std::vector<Chunk> top = split(r, t, flat, 0, maxdepth);
	json steps = json::array();
	json init = step(0, "init", 0);
	init["flags"] = flags;
	steps.push_back(init);
	if (t.mode == 1) {
		if (r.chance(1, 2)) {
			// an earlier search directory that does not exist, or one that holds DIRECTORIES named like the files wanted
			json a0 = step(0, "addpath", 0);
			a0["dir"] = r.chance(1, 2) ? "/nowhere" : "/shadow";
			steps.push_back(a0);
		}
		json a = step(0, "addpath", 0);
		a["dir"] = r.chance(1, 3) ? "~" : "/t";
		steps.push_back(a);
		if (r.chance(1, 2)) {
			// a directory added LATER that holds files of the same names with other (unacceptable) contents: the first
			// directory in the order they were added wins
			json a2 = step(0, "addpath", 0);
			a2["dir"] = "/alt";
			steps.push_back(a2);
		}
	}
	std::string route = r.chance(1, 3) ? "fp" : (r.chance(1, 2) ? "buf" : "file");
	json params = {{"mode", t.mode}, {"depth", t.max_depth_reached}, {"route", route}, {"body_includes", params_body_includes}};
	json world;
	auto top_parse = [&](const std::vector<Chunk> &chunks, const std::string &path) {
		json p = step(0, "parse", 0);
		if (route == "file") {
			t.files[path] = chunks;
			p["src"] = {{"kind", "file"}, {"path", t.mode == 1 ? path.substr(3) : (t.mode == 2 ? "~/" + path.substr(3) : path)}};
		} else
			p["src"] = {{"kind", route}, {"chunks", chunks_to_json(chunks)}};
		return p;
	};

	if (kind <= 1) {
		params["kind"] = "flat";
		json p = top_parse(top, "/t/top.conf");
		p["main"] = 1;
		if (r.chance(1, 4)) {
			// re-entry: one of the first callbacks - possibly running while an included file is open - creates, fills and
			// releases a temporary context; the flat text gets the same action, so the results must still agree
			p["cbact"] = r.chance(1, 2) ? "nested_parse" : "nested_parse_refused";
			p["cbact_at"] = (uint64_t)r.range(1, 3);
			p["cbact_c"] = 9;
		}
		steps.push_back(p);
		// position restoration: a wrong token in the includer after the last include statement
		if (r.chance(1, 2)) {
			std::vector<Chunk> bad = top;
			Chunk b;
			b.t = "= = =\n";
			b.toks.push_back(Tok{0, 1, "o", "", 0, false, false});
			b.faulty = true;
			bad.push_back(b);
			json init2 = step(0, "init", 1);
			init2["flags"] = flags;
			steps.push_back(init2);
			if (t.mode == 1) {
				json a = step(0, "addpath", 1);
				a["dir"] = "/t";
				steps.push_back(a);
			}
			json p2 = step(0, "parse", 1);
			std::string r2 = route;
			if (route == "file") {
				t.files["/t/topbad.conf"] = bad;
				p2["src"] = {{"kind", "file"}, {"path", t.mode == 1 ? "topbad.conf" : (t.mode == 2 ? "~/topbad.conf" : "/t/topbad.conf")}};
			} else
				p2["src"] = {{"kind", route}, {"chunks", chunks_to_json(bad)}};
			p2["position"] = 1;
			steps.push_back(p2);
		}
		// ... and a wrong token inside a single section of the includer that an included file has opened before: it is
		// the includer's file name and line that must be reported
		std::string single;
		for (auto &o : schema["opts"])
			if (o["t"] == "sec" && !(o.value("fl", 0) & (F_MULTI | F_TITLE)) && o["n"] != "root")
				single = o["n"].get<std::string>();
		if (!single.empty() && r.chance(1, 3)) {
			Chunk opens;
			opens.t = single + " {\n}\n";
			t.files["/t/opens.conf"] = {opens};
			std::vector<Chunk> bad = {include_chunk(r, target_name(t, "opens.conf"), "/t/opens.conf")};
			Chunk open2, b, close2;
			open2.t = "\n" + single + " {\n\n";
			b.t = "= = =\n";
			b.toks.push_back(Tok{0, 1, "o", "", 0, false, false});
			b.faulty = true;
			close2.t = "}\n";
			bad.push_back(open2);
			bad.push_back(b);
			bad.push_back(close2);
			json init3 = step(0, "init", 2);
			init3["flags"] = flags;
			steps.push_back(init3);
			if (t.mode == 1) {
				json a = step(0, "addpath", 2);
				a["dir"] = "/t";
				steps.push_back(a);
			}
			json p3 = step(0, "parse", 2);
			if (route == "file") {
				t.files["/t/topbad2.conf"] = bad;
				p3["src"] = {{"kind", "file"}, {"path", t.mode == 1 ? "topbad2.conf" : (t.mode == 2 ? "~/topbad2.conf" : "/t/topbad2.conf")}};
			} else
				p3["src"] = {{"kind", route}, {"chunks", chunks_to_json(bad)}};
			p3["position"] = 1;
			steps.push_back(p3);
		}
	} else if (kind == 2) {
		params["kind"] = "fault";
		// one failing target
		static const char *faults[] = {"missing", "dir", "noperm", "toodeep", "self", "badtoken", "empty_name"};
		std::string f = faults[r.below(7)];
		params["fault"] = f;
		std::vector<Chunk> top2 = top;
		size_t pos = r.below(top2.size() + 1);
		std::string tname;
		if (f == "missing")
			tname = target_name(t, "nonexistent.conf");
		else if (f == "dir")
			tname = target_name(t, "adir");
		else if (f == "noperm")
			tname = target_name(t, "noperm.conf");
		else if (f == "empty_name")
			tname = "";
		else if (f == "self") {
			tname = target_name(t, "self.conf");
			t.files["/t/self.conf"] = {include_chunk(r, tname)};
		} else if (f == "toodeep") {
			int n = (int)r.range(11, 13); // top -> chain0 .. chain10 is the 11th nested level: one more than supported
			for (int k = 0; k < n; k++) {
				std::string nm = "chain" + std::to_string(k) + ".conf";
				std::vector<Chunk> body;
				if (k + 1 < n)
					body.push_back(include_chunk(r, target_name(t, "chain" + std::to_string(k + 1) + ".conf")));
				t.files["/t/" + nm] = body;
			}
			tname = target_name(t, "chain0.conf");
		} else {
			// an error inside an included file
			tname = target_name(t, "bad.conf");
			Chunk b;
			b.t = "\n\n= = =\n";
			t.files["/t/bad.conf"] = {b};
			params["bad_line"] = 3;
		}
		Chunk fc = include_chunk(r, tname);
		fc.faulty = true;
		top2.insert(top2.begin() + pos, fc);
		json p = top_parse(top2, "/t/top.conf");
		p["main"] = 1;
		steps.push_back(p);
		// afterwards a good include must work (no lasting loss of include capacity)
		// (with a search path: sometimes a relative name with a directory part, which goes through the list like any other)
		json g = parse_step(0, 0, "buf", (t.mode == 1 && r.chance(1, 2)) ? "include(\"sub/good.conf\")\n" : "include(\"/t/good.conf\")\n");
		g["good"] = 1;
		steps.push_back(g);
	} else {
		params["kind"] = "history";
		int n = (int)r.range(1, 12);
		params["failures"] = n;
		static const char *bads[] = {"/t/nonexistent.conf", "/t/adir", "/t/bad.conf", "/t/chain0.conf", "/t/self.conf"};
		Chunk b;
		b.t = "= = =\n";
		t.files["/t/bad.conf"] = {b};
		t.files["/t/self.conf"] = {include_chunk(r, "/t/self.conf")};
		for (int k = 0; k < 12; k++) {
			std::vector<Chunk> body;
			if (k < 11)
				body.push_back(include_chunk(r, "/t/chain" + std::to_string(k + 1) + ".conf"));
			t.files["/t/chain" + std::to_string(k) + ".conf"] = body;
		}
		for (int i = 0; i < n; i++) {
			json p = parse_step(0, 0, r.chance(1, 3) ? "fp" : "buf", std::string("include(\"") + bads[r.below(5)] + "\")\n");
			p["expect_fail"] = 1;
			steps.push_back(p);
		}
		json init2 = step(0, "init", 1);
		init2["flags"] = flags;
		init2["probe"] = 1;
		steps.push_back(init2);
		if (t.mode == 1) {
			json a = step(0, "addpath", 1);
			a["dir"] = "/t";
			steps.push_back(a);
		}
		json p = top_parse(top, "/t/top.conf");
		p["c"] = 1;
		p["probe"] = 1;
		steps.push_back(p);
	}
	plan["world"] = world_of(t);
	{
		// "/shadow": for every file of the tree a directory of the same name (a directory never matches)
		json sh = json::array();
		for (auto &f : plan["world"]["fs"]) {
			std::string p = f["path"].get<std::string>();
			if (f.value("kind", std::string()) == "file" && p.compare(0, 3, "/t/") == 0 && p.find('/', 3) == std::string::npos)
				sh.push_back({{"path", "/shadow/" + p.substr(3)}, {"kind", "dir"}});
		}
		for (auto &e : sh) {
			plan["world"]["fs"].push_back(e);
			plan["world"]["fs"].push_back(fs_file("/alt/" + e["path"].get<std::string>().substr(8), "= = = the wrong file\n"));
		}
		plan["world"]["fs"].push_back({{"path", "/shadow"}, {"kind", "dir"}});
		plan["world"]["fs"].push_back({{"path", "/alt"}, {"kind", "dir"}});
	}
	// a third of the worlds keep some files elsewhere and reach them through symbolic links in /t
	if (r.chance(1, 3)) {
		json links = json::array();
		for (auto &f : plan["world"]["fs"]) {
			std::string p = f["path"].get<std::string>();
			if (f.value("kind", std::string()) != "file" || !f.contains("chunks") || p.compare(0, 3, "/t/") != 0 || !r.chance(1, 2))
				continue;
			std::string real = "/real/" + p.substr(3);
			f["path"] = real;
			links.push_back({{"path", p}, {"kind", "link"}, {"to", real}});
			params["links"] = 1;
		}
		for (auto &l : links)
			plan["world"]["fs"].push_back(l);
		plan["world"]["fs"].push_back({{"path", "/real"}, {"kind", "dir"}});
	}
	plan["knobs"] = {{"tty", r.chance(1, 8)}, {"fill", 0xA5}, {"recycle", r.chance(1, 2)}};
	plan["steps"] = steps;
	plan["params"] = params;
	for (auto &st : steps)
		if (st["op"] == "init" || st["op"] == "addpath")
			st["keep"] = 1;
	plan["steps"] = steps;
	plan["frozen"] = json::array({"world", "schemas"}); // file contents carry oracle expectations: the minimiser leaves them alone
	return plan;
}

const OpResult *find_op(const RunResult &r, int index)
{
	for (auto &o : r.ops)
		if (o.index == index)
			return &o;
	return nullptr;
}

const json *fs_entry(const json &plan, const std::string &path)
{
	if (!plan.contains("world") || !plan["world"].contains("fs"))
		return nullptr;
	for (auto &f : plan["world"]["fs"])
		if (f.value("path", std::string()) == path) {
			if (f.value("kind", std::string()) == "link") // opened through a symbolic link: the contents are the target's
				return fs_entry(plan, f["to"].get<std::string>());
			return &f;
		}
	return nullptr;
}

// chunks of the top-level source of a parse step (the includer), and the name the library reports for it
bool top_source(const json &plan, const json &st, json *chunks, std::string *name)
{
	const json &src = st["src"];
	std::string kind = src.value("kind", "buf");
	if (kind == "file") {
		std::string p = src.value("path", "");
		if (p.compare(0, 2, "~/") == 0)
			p = "/t/" + p.substr(2);
		else if (p.empty() || p[0] != '/')
			p = "/t/" + p;
		const json *f = fs_entry(plan, p);
		if (!f || !f->contains("chunks"))
			return false;
		*chunks = (*f)["chunks"];
		*name = p;
		return true;
	}
	if (!src.contains("chunks"))
		return false;
	*chunks = src["chunks"];
	*name = kind == "buf" ? "[buf]" : "FILE";
	return true;
}

// textual inclusion: replace every include item whose target is a known file by that file's items
json inline_includes(const json &plan, const json &chunks, int depth)
{
	json out = json::array();
	for (auto &c : chunks) {
		if (c.contains("inc") && depth < 20) {
			const json *f = fs_entry(plan, c["inc"].get<std::string>());
			if (f && f->contains("chunks")) {
				for (auto &x : inline_includes(plan, (*f)["chunks"], depth + 1))
					out.push_back(x);
				continue;
			}
		}
		if (c.contains("incs") && depth < 20) {
			// include statements inside a section body: write the file's text in place
			json c2 = c;
			std::string t = from_json_bytes(c["t"].get<std::string>());
			bool ok = true;
			// replace from the back so that earlier offsets stay valid
			for (size_t k = c["incs"].size(); k-- > 0;) {
				size_t s = c["incs"][k][0].get<size_t>(), e = c["incs"][k][1].get<size_t>();
				const json *f = fs_entry(plan, c["incs"][k][2].get<std::string>());
				if (!f || !f->contains("chunks") || e > t.size() || s > e) {
					ok = false;
					break;
				}
				std::string body;
				for (auto &x : inline_includes(plan, (*f)["chunks"], depth + 1))
					body += from_json_bytes(x["t"].get<std::string>());
				t = t.substr(0, s) + " " + body + t.substr(e);
			}
			if (ok) {
				c2["t"] = to_json_bytes(t);
				c2.erase("incs");
				c2["toks"] = json::array(); // offsets are no longer valid; the flat text needs no token map
				out.push_back(c2);
				continue;
			}
		}
		out.push_back(c);
	}
	return out;
}

int faulty_line(const json &chunks, bool *found)
{
	int line = 1;
	*found = false;
	for (auto &c : chunks) {
		std::string t = from_json_bytes(c["t"].get<std::string>());
		if (c.value("faulty", 0)) {
			*found = true;
			// the offending token is the first token of the faulty item
			size_t upto = c.contains("toks") && !c["toks"].empty() ? c["toks"][0][1].get<size_t>() : 0;
			for (size_t i = 0; i < upto && i < t.size(); i++)
				if (t[i] == '\n')
					line++;
			return line;
		}
		for (char ch : t)
			if (ch == '\n')
				line++;
	}
	return line;
}

// precondition of the position / failing-target oracles: without the faulty item the source is accepted silently
bool baseline_accepted(const json &plan, size_t step_index, JudgeOut &out)
{
	json bp = plan;
	json &src = bp["steps"][step_index]["src"];
	json *chunks = nullptr;
	if (src.value("kind", "buf") == "file") {
		std::string p = src.value("path", "");
		if (p.compare(0, 2, "~/") == 0)
			p = "/t/" + p.substr(2);
		else if (p.empty() || p[0] != '/')
			p = "/t/" + p;
		for (auto &f : bp["world"]["fs"])
			if (f.value("path", std::string()) == p && f.value("kind", std::string()) == "link")
				p = f["to"].get<std::string>();
		for (auto &f : bp["world"]["fs"])
			if (f.value("path", std::string()) == p && f.contains("chunks"))
				chunks = &f["chunks"];
	} else if (src.contains("chunks"))
		chunks = &src["chunks"];
	if (!chunks)
		return false;
	json kept = json::array();
	for (auto &c : *chunks)
		if (!c.value("faulty", 0))
			kept.push_back(c);
	*chunks = kept;
	RunResult br = execute(bp);
	add_exec_counters(out, br);
	const OpResult *o = find_op(br, (int)step_index);
	bool ok = o && !o->skipped && o->ret == 0 && o->diags.empty() && !br.died;
	if (!ok)
		out.k.add("baseline_unusable");
	return ok;
}

JudgeOut judge(const json &plan)
{
	JudgeOut out;
	RunResult r = execute(plan);
	add_exec_counters(out, r);
	const json params = plan.contains("params") ? plan["params"] : json::object();
	std::string kind = params.value("kind", "");
	out.k.add("kind." + kind);
	out.k.add("naming." + std::to_string(params.value("mode", 0)));
	out.distinct.push_back(plan_fingerprint(plan));
	death_and_stdout(r, "", out.viol);
	out.viol.erase(std::remove_if(out.viol.begin(), out.viol.end(), [](const Violation &v) { return v.cls.compare(0, 7, "stdout:") == 0 || v.cls.compare(0, 6, "stdin:") == 0; }), out.viol.end());
	// after every parse: include stack empty, streams closed
	for (auto &c : r.conservation)
		if (c.compare(0, 13, "include-stack") == 0 || c.compare(0, 11, "stream-leak") == 0 || c.compare(0, 22, "stream-use-after-close") == 0)
			out.viol.push_back({c.substr(0, c.find_first_of(" =")), "at the end of the run: " + c, nullptr});
	if (r.died)
		return out;
	const json &steps = plan["steps"];
	for (size_t i = 0; i < steps.size(); i++) {
		const json &st = steps[i];
		const OpResult *o = find_op(r, (int)i);
		if (!o || o->skipped || st["op"] != "parse")
			continue;
		json top;
		std::string topname;
		bool have_top = top_source(plan, st, &top, &topname);
		if (st.value("main", 0) && kind == "flat" && have_top) {
			// O-flat: the same context history, with the text of every included file written in place
			json flatp = plan;
			flatp["steps"][i]["src"] = {{"kind", "buf"}, {"chunks", inline_includes(plan, top, 0)}};
			RunResult fr = execute(flatp);
			add_exec_counters(out, fr);
			const OpResult *fo = find_op(fr, (int)i);
			if (params.value("depth", 0) > 0)
				out.k.add("probe.split_into_include_tree");
			if (params.value("depth", 0) >= 5)
				out.k.add("probe.include_depth_ge_5");
			if (params.value("body_includes", 0) > 0)
				out.k.add("probe.include_inside_section_body");
			if (fo && (o->ret != fo->ret || o->dump != fo->dump)) {
				out.viol.push_back({"O-flat:" + std::string(o->ret != fo->ret ? "ret" : "values"),
						    "the include-split text and the flat text give different results\n  split: ret=" + std::to_string(o->ret) + " diags=" + diag_str(*o) + "\n" + o->dump.substr(0, 700) +
							    "\n  flat:  ret=" + std::to_string(fo->ret) + " diags=" + diag_str(*fo) + "\n" + fo->dump.substr(0, 700),
						    nullptr});
			}
		}
		if (st.value("position", 0) && have_top) {
			bool found;
			int wl = faulty_line(top, &found);
			if (found && baseline_accepted(plan, i, out)) {
				out.k.add("probe.error_after_include_in_includer");
				if (o->ret != 1 || o->diags.empty())
					out.viol.push_back({"position:unreported", "a wrong token after the includes was not reported (ret=" + std::to_string(o->ret) + ", diagnostics=" + std::to_string(o->diags.size()) + ")", nullptr});
				else if (o->diags[0].file != topname || o->diags[0].line != wl)
					out.viol.push_back({std::string("position:") + (o->diags[0].file != topname ? "file" : "line"),
							    "after the include statements an error in the including source must be reported with its own file name and line: expected " + topname + ":" + std::to_string(wl) +
								    ", got " + o->diags[0].file + ":" + std::to_string(o->diags[0].line),
							    nullptr});
			}
		}
		if (st.value("main", 0) && kind == "fault" && have_top) {
			bool found;
			faulty_line(top, &found);
			std::string f = params.value("fault", "");
			if (found && baseline_accepted(plan, i, out)) {
				out.k.add("fault.target_" + f + ".fired");
				if (o->ret != 1)
					out.viol.push_back({"fault-not-parse-error:" + f, "an include whose target is '" + f + "' must be a reported parse error; cfg_parse returned " + std::to_string(o->ret), nullptr});
				else if (o->diags.empty())
					out.viol.push_back({"fault-unreported:" + f, "an include whose target is '" + f + "' failed without any diagnostic", nullptr});
				else if (f == "badtoken" && (o->diags[0].file != "/t/bad.conf" || o->diags[0].line != params.value("bad_line", 0)))
					out.viol.push_back({"fault-position:badtoken", "an error inside an included file must name that file and line: expected /t/bad.conf:" + std::to_string(params.value("bad_line", 0)) +
											       ", got " + o->diags[0].file + ":" + std::to_string(o->diags[0].line),
							    nullptr});
			}
		}
		if (st.value("good", 0)) {
			out.k.add("probe.good_include_after_failure");
			if (o->ret != 0)
				out.viol.push_back({"capacity:good-include-fails", "after a failing include, include(\"/t/good.conf\") fails (ret=" + std::to_string(o->ret) + " " + diag_str(*o) + ")", nullptr});
		}
		if (st.value("expect_fail", 0)) {
			out.k.add("fault.repeated_failing_include.fired");
			if (o->ret != 1 || o->diags.empty())
				out.viol.push_back({"fault-unreported:history", "a failing include returned " + std::to_string(o->ret) + " with " + std::to_string(o->diags.size()) + " diagnostics", nullptr});
		}
	}
	if (kind == "history") {
		// O-fresh: the probe (init + parse of the include tree) equals the same in a fresh image
		json solo = plan;
		json ss = json::array();
		int last = -1;
		for (size_t i = 0; i < steps.size(); i++)
			if (steps[i].value("probe", 0) || (steps[i]["op"] == "addpath" && steps[i].value("c", 0) == 1)) {
				ss.push_back(steps[i]);
				last = (int)i;
			}
		solo["steps"] = ss;
		RunResult fr = execute(solo);
		add_exec_counters(out, fr);
		const OpResult *bo = find_op(r, last);
		if (bo && bo->op == "parse" && fr.ops.size() >= 2) {
			const OpResult &fo = fr.ops[fr.ops.size() - 2]; // last real op before "end"
			if (params.value("failures", 0) >= 10)
				out.k.add("probe.ten_or_more_failures_then_success");
			if (fo.op == "parse" && outcome(*bo) != outcome(fo))
				out.viol.push_back({"capacity:O-fresh", "after failing includes the include tree parses differently than in a fresh process image\n  after: " + outcome(*bo).substr(0, 500) +
									       "\n  fresh: " + outcome(fo).substr(0, 500),
						    nullptr});
		}
	}
	return out;
}

Property P = [] {
	Property p;
	p.id = "C13";
	p.level = "exploration";
	p.rule = "seeded schema and accepted rendered text, split at item boundaries into a random tree of include files (depth 0..9) named absolutely, relative through the search "
		 "path or with a tilde, delivered as buffer / stream / file; run kinds: flat-equivalence (+ a wrong token in the includer after the includes: file and line restored), "
		 "one failing target (missing, directory, unreadable, chain deeper than the limit, self-inclusion, error inside the included file, empty name) followed by a good include, "
		 "and histories of 1..12 failing includes followed by the include tree in a new context compared with a fresh image; distinct = distinct plans";
	p.assumptions = {"splitting happens at top-level item boundaries and, for sections whose declaration lists include(), by moving the whole body of a top-level section item into a file", "line expectations count every newline of the generator's own text once (M-line); no parser model is involved"};
	p.probes = {"split_into_include_tree", "include_depth_ge_5", "include_inside_section_body", "error_after_include_in_includer", "good_include_after_failure", "ten_or_more_failures_then_success"};
	p.components = {{"confuse.c", "real"}, {"lexer.l (flex 2.6.4 generated)", "real"}, {"file namespace (fopen/stat)", "stub: in-memory tree"}, {"passwd database", "stub"}, {"streams", "stub: fopencookie"}};
	p.quick_seconds = 20;
	p.thorough_seconds = 400;
	p.generate = generate;
	p.judge = judge;
	return p;
}();
Registrar reg(&P);

} // namespace
} // namespace sim
