// C17 — file names resolve deterministically via search path and tilde.
// Simulated file namespace + passwd database; reference model M-resolve; O-fill differential over the
// allocator fill byte (uninitialised memory); ASan on the simulated getpwnam's argument.
#include "common.h"

namespace sim {
namespace {

struct Model {
	std::map<std::string, std::string> kind; // path -> file | dir | noperm | link
	std::map<std::string, std::string> link; // path -> target of the symbolic link
	std::map<std::string, long> marker;      // path -> marker value
	std::map<std::string, std::string> home; // user -> dir
	std::map<unsigned, std::string> uid_home;
	unsigned euid = 0;

	explicit Model(const json &plan)
	{
		const json &w = plan["world"];
		for (auto &f : w["fs"]) {
			std::string p = f["path"].get<std::string>();
			kind[p] = f.value("kind", std::string("file"));
			if (kind[p] == "link")
				link[p] = f["to"].get<std::string>();
			if (f.contains("marker"))
				marker[p] = f["marker"].get<long>();
		}
		for (auto &p : w["passwd"]) {
			home[p["name"].get<std::string>()] = p["dir"].get<std::string>();
			uid_home[p["uid"].get<unsigned>()] = p["dir"].get<std::string>();
		}
		euid = w.value("euid", 0u);
	}
	std::string tilde(const std::string &name) const
	{
		if (name.empty() || name[0] != '~')
			return name;
		if (name.size() == 1 || name[1] == '/') {
			auto it = uid_home.find(euid);
			if (it == uid_home.end())
				return name;
			return it->second + name.substr(1);
		}
		size_t sl = name.find('/');
		std::string user = name.substr(1, sl == std::string::npos ? std::string::npos : sl - 1);
		auto it = home.find(user);
		if (it == home.end())
			return name;
		return it->second + (sl == std::string::npos ? "" : name.substr(sl));
	}
	// lookup as a file system does it: runs of '/' count as one, a trailing '/' demands a directory
	const std::string *node_kind(const std::string &path, int hops = 0) const
	{
		std::string p;
		for (char c : path)
			if (!(c == '/' && !p.empty() && p.back() == '/'))
				p += c;
		bool want_dir = p.size() > 1 && p.back() == '/';
		if (want_dir)
			p.pop_back();
		auto it = kind.find(p);
		if (it == kind.end())
			return nullptr;
		if (it->second == "link") // stat() and fopen() follow symbolic links
			return hops >= 8 ? nullptr : node_kind(link.at(p) + (want_dir ? "/" : ""), hops + 1);
		if (want_dir && it->second != "dir")
			return nullptr;
		canonical = p;
		return &it->second;
	}
	mutable std::string canonical;
	bool regular(const std::string &p) const
	{
		const std::string *k = node_kind(p);
		return k && *k != "dir";
	}
	// returns true + full path when found
	bool search(const std::vector<std::string> &dirs, const std::string &file, std::string *out) const
	{
		if (dirs.empty())
			return false;
		if (!file.empty() && file[0] == '/') {
			if (regular(file)) {
				*out = file;
				return true;
			}
			return false;
		}
		for (auto &d : dirs) { // add order = search order
			std::string full = d + "/" + file;
			if (regular(full)) {
				*out = full;
				return true;
			}
		}
		return false;
	}
	// what opening the resolved name gives: 0 ok, -1 cannot be opened
	int open_result(const std::string &full) const
	{
		const std::string *k = node_kind(full);
		if (!k || *k != "file")
			return -1;
		return 0;
	}
	long marker_of_path(const std::string &full) const
	{
		if (!node_kind(full))
			return -999;
		auto it = marker.find(canonical);
		return it == marker.end() ? -999 : it->second;
	}
};

const std::string LONGDIR_POOL = "/l" + std::string(246, 'o') + "ng";
const char *DIRS[] = {"/a", "/b", "/c", "/missing", "~", "~alice/cfg", "~nouser/x", "/a", "~bob", LONGDIR_POOL.c_str(), "/b"};
const char *NAMES[] = {"f.conf", "g.conf", "/a/f.conf", "/b/g.conf", "/nope/f.conf", "", "sub/f.conf", "~/f.conf", "~alice/cfg/f.conf", "~alice", "~", "~/", "~bob/f.conf",
		       "~nouser/f.conf", "~nouser", "f.conf/", "/a", "~alicex/f.conf", "~al/f.conf"};

json generate(uint64_t seed, uint64_t idx, int tier)
{
	(void)idx;
	(void)tier;
	Rng r(seed);
	json plan;
	// "box" is a single section (created by cfg_init, before any search path exists) that may include files itself
	json box = json::array({{{"n", "marker"}, {"t", "int"}, {"d", -1}}, {{"n", "include"}, {"t", "func"}, {"fn", "include"}}});
	json opts = json::array({{{"n", "marker"}, {"t", "int"}, {"d", -1}}, {{"n", "include"}, {"t", "func"}, {"fn", "include"}}, {{"n", "box"}, {"t", "sec"}, {"sub", box}}});
	plan["schemas"] = json::array({{{"opts", opts}}});
	// file namespace: every candidate location holds a regular file, a directory, an unreadable file, or nothing
	json fs = json::array();
	long mk = 100;
	// "/a/b" and "/c/a" mirror the absolute names "/b/..." and "/a/..." below a search directory
	// "/a/sub", "/b/sub": relative names with a directory part ("sub/f.conf") still go through the list
	static const std::string LONGDIR = "/l" + std::string(246, 'o') + "ng"; // dir + "/" + name is longer than NAME_MAX
	const char *roots[] = {"/a", "/b", "/c", "/home/alice", "/home/alice/cfg", "/home/bob", "/root", "/a/b", "/c/a", "/a/nope", "/a/sub", "/b/sub", LONGDIR.c_str()};
	for (const char *d : roots)
		if (r.chance(5, 6))
			fs.push_back({{"path", d}, {"kind", "dir"}});
	for (const char *d : roots)
		for (const char *f : {"f.conf", "g.conf"}) {
			unsigned k = (unsigned)r.below(10);
			std::string p = std::string(d) + "/" + f;
			if (k < 4) {
				json e = fs_file(p, "marker = " + std::to_string(mk) + "\n");
				e["marker"] = mk;
				mk++;
				fs.push_back(e);
			} else if (k < 6)
				fs.push_back({{"path", p}, {"kind", "dir"}});
			else if (k < 7)
				fs.push_back({{"path", p}, {"kind", "noperm"}});
			else if (k < 8) {
				// a symbolic link: to another candidate (whatever that is, possibly a link or itself), a directory, or nowhere
				unsigned tk = (unsigned)r.below(6);
				std::string to = tk == 0 ? std::string("/nowhere/x") : tk == 1 ? std::string(roots[r.below(sizeof(roots) / sizeof(roots[0]))]) : std::string(roots[r.below(9)]) + (r.chance(1, 2) ? "/f.conf" : "/g.conf");
				fs.push_back({{"path", p}, {"kind", "link"}, {"to", to}});
			}
		}
	json w;
	w["fs"] = fs;
	w["passwd"] = json::array({{{"name", "root"}, {"uid", 0}, {"dir", "/root"}}, {{"name", "alice"}, {"uid", 1000}, {"dir", "/home/alice"}}, {{"name", "bob"}, {"uid", 1001}, {"dir", "/home/bob"}}});
	static const unsigned euids[] = {0, 1000, 1001, 4242};
	w["euid"] = euids[r.below(4)];
	// the account database decides, not the environment: HOME points somewhere else, or is not set
	if (r.chance(3, 4)) {
		static const char *homes[] = {"/c", "/home/bob", "/a/sub", "/nowhere", ""};
		w["env"] = {{"HOME", homes[r.below(5)]}};
	}
	plan["world"] = w;
	plan["knobs"] = {{"fill", 0xA5}};
	json steps = json::array();
	json i0 = step(0, "init", 0);
	i0["keep"] = 1;
	steps.push_back(i0);
	int npath = (int)r.range(0, 4);
	for (int i = 0; i < npath; i++) {
		json a = step(0, "addpath", 0);
		a["dir"] = DIRS[r.below(sizeof(DIRS) / sizeof(DIRS[0]))];
		steps.push_back(a);
	}
	int nops = (int)r.range(2, 8);
	int nnames = sizeof(NAMES) / sizeof(NAMES[0]);
	for (int i = 0; i < nops; i++) {
		std::string name = NAMES[r.below(nnames)];
		switch (r.below(5)) {
		case 4: {
			json s = parse_step(0, 0, "buf", "box { include(\"" + name + "\") }\n");
			s["inbox"] = 1;
			steps.push_back(s);
			break;
		}
		case 0: {
			json s = step(0, "searchpath", 0);
			s["name"] = name;
			steps.push_back(s);
			break;
		}
		case 1: {
			json s = step(0, "tilde", 0);
			s["name"] = name;
			steps.push_back(s);
			break;
		}
		case 2:
			steps.push_back(parse_file_step(0, 0, name));
			break;
		default:
			steps.push_back(parse_step(0, 0, "buf", "include(\"" + name + "\")\n"));
			break;
		}
		if (r.chance(1, 6) && npath < 5) {
			json a = step(0, "addpath", 0);
			a["dir"] = DIRS[r.below(sizeof(DIRS) / sizeof(DIRS[0]))];
			steps.push_back(a);
			npath++;
		}
	}
	plan["steps"] = steps;
	plan["frozen"] = json::array({"world", "schemas"});
	return plan;
}

long marker_of(const std::string &dump, bool inbox = false)
{
	size_t p = inbox ? dump.find("\n  marker:int") : dump.find("marker:int");
	if (p == std::string::npos)
		return -999;
	size_t b = dump.find('[', p), e = dump.find(']', p);
	if (b == std::string::npos || e == std::string::npos)
		return -999;
	return atol(dump.substr(b + 1, e - b - 1).c_str());
}

JudgeOut judge(const json &plan)
{
	JudgeOut out;
	RunResult r = execute(plan);
	add_exec_counters(out, r);
	out.distinct.push_back(plan_fingerprint(plan));
	death_and_stdout(r, "", out.viol);
	out.viol.erase(std::remove_if(out.viol.begin(), out.viol.end(), [](const Violation &v) { return v.cls.compare(0, 7, "stdout:") == 0 || v.cls.compare(0, 6, "stdin:") == 0; }), out.viol.end());
	if (r.died)
		return out;
	Model M(plan);
	std::vector<std::string> dirs; // as stored by the library: tilde-expanded, in add order
	long cur_marker = -1;
	const json &steps = plan["steps"];
	for (auto &o : r.ops) {
		if (o.op == "end" || o.index < 0 || (size_t)o.index >= steps.size())
			continue;
		const json &st = steps[o.index];
		if (o.skipped)
			continue;
		if (o.op == "addpath") {
			std::string d = from_json_bytes(st["dir"].get<std::string>());
			if (o.ret == 0)
				dirs.push_back(M.tilde(d));
			if (d[0] == '~')
				out.k.add("probe.tilde_prefixed_search_directory");
		} else if (o.op == "tilde") {
			std::string name = from_json_bytes(st["name"].get<std::string>());
			std::string want = M.tilde(name);
			if (name.size() > 1 && name[0] == '~' && name[1] != '/')
				out.k.add(want != name ? "probe.tilde_user_expanded" : "probe.tilde_unknown_user");
			if (!o.has_sres || o.sres != want)
				out.viol.push_back({"tilde:wrong", "cfg_tilde_expand(\"" + esc(name) + "\") = " + (o.has_sres ? "\"" + esc(o.sres) + "\"" : "NULL") + ", expected \"" + esc(want) + "\"", nullptr});
			else if (o.aux.empty() || o.aux[0] != "fresh")
				out.viol.push_back({"tilde:notfresh", "cfg_tilde_expand(\"" + esc(name) + "\") did not return a fresh block", nullptr});
		} else if (o.op == "searchpath") {
			std::string name = from_json_bytes(st["name"].get<std::string>());
			std::string want;
			bool found = M.search(dirs, name, &want);
			if (found && dirs.size() > 1)
				out.k.add("probe.found_with_several_directories");
			if (found) {
				auto lk = M.kind.find(want);
				if (lk != M.kind.end() && lk->second == "link")
					out.k.add("probe.found_through_symbolic_link");
			}
			// precedence and shadowing reach
			if (found && !name.empty() && name[0] != '/') {
				int earlier_dirs = 0;
				for (auto &d : dirs) {
					if (d + "/" + name == want)
						break;
					auto it = M.kind.find(d + "/" + name);
					if (it != M.kind.end() && it->second == "dir")
						out.k.add("probe.directory_shadowing_a_file_earlier_in_path");
					if (it != M.kind.end() && it->second == "link")
						out.k.add("probe.dangling_or_directory_link_skipped");
					earlier_dirs++;
				}
			}
			if (found != (o.ret == 1) || (found && o.sres != want))
				out.viol.push_back({"searchpath:wrong", "cfg_searchpath(\"" + esc(name) + "\") = " + (o.has_sres ? "\"" + esc(o.sres) + "\"" : "NULL") + ", expected " + (found ? "\"" + esc(want) + "\"" : "NULL"),
						    nullptr});
			else if (found && (o.aux.empty() || o.aux[0] != "fresh"))
				out.viol.push_back({"searchpath:notfresh", "cfg_searchpath did not return a fresh block", nullptr});
		} else if (o.op == "parse") {
			bool is_file = st["src"].value("kind", "buf") == "file";
			std::string name;
			if (is_file)
				name = st["src"]["path"].get<std::string>();
			else {
				std::string t = source_text(st["src"]);
				size_t a = t.find('"'), b = t.rfind('"');
				if (a == std::string::npos || b <= a)
					continue;
				name = t.substr(a + 1, b - a - 1);
			}
			// resolution as the library must do it: search path when one is set, otherwise tilde expansion
			std::string full;
			bool resolved = dirs.empty() ? (full = M.tilde(name), true) : M.search(dirs, name, &full);
			int openr = resolved ? M.open_result(full) : -1;
			bool want_ok = resolved && openr == 0;
			bool inbox = st.value("inbox", 0) != 0;
			out.k.add(is_file ? "route.top_level_parse" : inbox ? "route.include_inside_single_section" : "route.include");
			if (want_ok)
				out.k.add("probe.file_resolved_and_parsed");
			long want_ret = want_ok ? 0 : (is_file ? -1 : 1);
			if (o.ret != want_ret)
				out.viol.push_back({std::string("resolve:ret:") + (is_file ? "parse" : "include"),
						    std::string(is_file ? "cfg_parse" : "include") + "(\"" + esc(name) + "\") returned " + std::to_string(o.ret) + ", expected " + std::to_string(want_ret) + " (model: " +
							    (resolved ? "resolves to " + full : "not found") + ")",
						    nullptr});
			else if (want_ok) {
				long m = marker_of(o.dump, inbox);
				long wm = M.marker_of_path(full);
				cur_marker = wm;
				if (m != wm)
					out.viol.push_back({std::string("resolve:wrongfile:") + (is_file ? "parse" : "include"), "\"" + esc(name) + "\" must resolve to " + full + " (marker " + std::to_string(wm) +
															      ") but the context holds marker " + std::to_string(m),
							    nullptr});
			}
		}
	}
	(void)cur_marker;
	out.k.add("max_getpwnam_argument_length", 0);
	// O-fill: the outcome never depends on what fresh memory contains
	if (out.viol.empty()) {
		for (int fill : {0x00, 0xFF}) {
			ExecOpts eo;
			eo.fill_override = fill;
			RunResult fr = execute(plan, eo);
			add_exec_counters(out, fr);
			out.k.add("fault.fill_byte.fired");
			if (fr.hash != r.hash) {
				out.viol.push_back({"O-fill", "the event log differs when fresh heap memory is filled with byte " + std::to_string(fill) + " instead of 0xA5: the result depends on uninitialised memory", nullptr});
				break;
			}
		}
	}
	return out;
}

Property P = [] {
	Property p;
	p.id = "C17";
	p.level = "exploration";
	p.rule = "seeded layouts of a simulated file namespace (7 directories x 2 file names, each location a regular file with a distinct marker, a directory, an unreadable file or "
		 "nothing), passwd database (3 users; effective uid with or without an entry), search-path sequences over a pool of 9 directories (existing, missing, duplicated, "
		 "tilde-prefixed, unknown user) and 2-8 lookups per plan over 19 name forms via cfg_searchpath, cfg_tilde_expand, cfg_parse and include(); distinct = distinct plans";
	p.assumptions = {"reference model M-resolve (40 lines): first directory in add order containing a regular file, absolute names bypass the list, ~ / ~user via the simulated passwd table, unknown user unchanged",
			 "an unreadable regular file is found by the search (stat says regular) but cannot be opened: the parse must fail",
			 "uninitialised-memory dependence is decided by a differential over the allocator fill byte (0x00 / 0xA5 / 0xFF) plus ASan in the simulated getpwnam, not by MSan"};
	p.probes = {"tilde_prefixed_search_directory", "tilde_user_expanded", "tilde_unknown_user", "found_with_several_directories", "directory_shadowing_a_file_earlier_in_path", "file_resolved_and_parsed", "found_through_symbolic_link", "dangling_or_directory_link_skipped"};
	p.components = {{"confuse.c (cfg_searchpath, cfg_tilde_expand, cfg_parse)", "real"}, {"lexer.l cfg_lexer_include", "real"}, {"file namespace (stat/fopen)", "stub: in-memory tree"},
			{"passwd database (getpwnam/getpwuid/geteuid)", "stub"}, {"allocator", "stub: fill byte chosen by the simulator"}};
	p.quick_seconds = 20;
	p.thorough_seconds = 300;
	p.generate = generate;
	p.judge = judge;
	return p;
}();
Registrar reg(&P);

} // namespace
} // namespace sim
