// C14 — user callbacks see exactly the parsed items, and their verdict binds.
// Callback parties are simulator functions: every invocation is logged; for every k a run in which the k-th
// invocation returns non-zero (F-cb); pre-set validator veto / rewrite on by-name setters.
#include "common.h"
#include "store.h"
#include "events.h"

namespace sim {
namespace {

void strip_defaults_of_callback_options(json &opts)
{
	for (auto &o : opts) {
		if (o.value("pcb", 0) || o.value("vcb", 0) || o["t"] == "ptr")
			o.erase("dp"); // no callback invocations while defaults are applied: the trace is about the text
		if (o.contains("sub"))
			strip_defaults_of_callback_options(o["sub"]);
	}
}

json generate(uint64_t seed, uint64_t idx, int tier)
{
	Rng r(seed);
	json plan;
	SchemaGen sg;
	sg.funcs = true;
	sg.ptrs = true;
	sg.pcb = true;
	sg.vcb = true;
	sg.vcb2 = true;
	sg.keystrval = r.chance(1, 4);
	sg.max_opts = 6;
	sg.deprecated = r.chance(1, 2); // deprecated and dropped options are validated like any other
	sg.simple = r.chance(1, 2); // options bound to application variables keep no value list: callbacks must still run for them
	json schema = gen_schema(r, sg);
	strip_defaults_of_callback_options(schema["opts"]);
	plan["schemas"] = json::array({schema});
	int flags = (r.chance(1, 8) ? F_NOCASE : 0) | (r.chance(1, 2) ? F_COMMENTS : 0);
	json steps = json::array();
	json init = step(0, "init", 0);
	init["flags"] = flags;
	init["keep"] = 1;
	steps.push_back(init);
	if (idx % 5 == 4) {
		// setter plan: veto / rewrite by the pre-set validator
		std::vector<OptRef> refs = collect_opts(r, schema["opts"]);
		int n = (int)r.range(2, 8);
		for (int i = 0; i < n; i++) {
			const OptRef &ref = refs[r.below(refs.size())];
			std::string t = ref.decl["t"].get<std::string>();
			if (!ref.decl.value("vcb2", 0) || (t != "int" && t != "float" && t != "str"))
				continue;
			json s = step(0, "set" + t, 0);
			s["at"] = ref.at;
			s["name"] = ref.decl["n"];
			s["idx"] = 0u;
			if (t == "int")
				s["v"] = r.range(-100, 100);
			else if (t == "float")
				s["v"] = (double)r.range(-40, 40) / 4.0;
			else if (r.chance(1, 4))
				s["v"] = nullptr; // a NULL string goes through the validator like any other value
			else
				s["v"] = to_json_bytes(gen_string_value(r, false, 5));
			unsigned m = (unsigned)r.below(3);
			if (m == 0) {
				static const int verdicts[] = {1, -1, 3, -9};
				s["cb2"] = "veto";
				s["cb2v"] = verdicts[r.below(4)];
			} else if (m == 1 && t != "str") {
				s["cb2"] = "rewrite";
				s["cb2i"] = r.range(1000, 2000);
				s["cb2f"] = (double)r.range(4000, 8000) / 4.0;
			}
			s["setter"] = 1;
			steps.push_back(s);
		}
		plan["steps"] = steps;
		plan["params"] = {{"kind", "setter"}};
		plan["frozen"] = json::array({"schemas"});
		return plan;
	}
	// half of the plans register some validators through cfg_set_validate_func(path) instead of the declaration
	json registered = json::array();
	if (r.chance(1, 2)) {
		std::function<void(json &, const std::string &, bool)> move = [&](json &opts, const std::string &prefix, bool under_multi) {
			for (auto &o : opts) {
				std::string path = prefix + o["n"].get<std::string>();
				if (o.value("vcb", 0) && r.chance(1, 2)) {
					o.erase("vcb");
					registered.push_back(path);
				}
				if (o.contains("sub"))
					move(o["sub"], path + "|", under_multi || (o.value("fl", 0) & F_MULTI));
			}
		};
		move(schema["opts"], "", false);
		plan["schemas"] = json::array({schema});
		if (!registered.empty() && r.chance(1, 2)) {
			// section instances exist before the validators are registered: registration by path through a multi
			// section concerns the instances created afterwards, through a single section the existing one
			TextGen tg0;
			tg0.max_items = 4;
			tg0.ctx_flags = flags;
			tg0.comments = 0;
			tg0.unique_titles = true;
			json p0 = step(0, "parse", 0);
			p0["src"] = {{"kind", "buf"}, {"chunks", chunks_to_json(gen_text(r, schema["opts"], tg0))}};
			p0["keep"] = 1;
			steps.push_back(p0);
		}
		for (auto &pth : registered) {
			json sv = step(0, "setvalidate", 0);
			std::string written = pth.get<std::string>();
			if ((flags & F_NOCASE) && r.chance(1, 2)) // case-insensitive context: the path may be spelled in any letter case
				for (auto &ch : written)
					ch = (char)toupper((unsigned char)ch);
			sv["name"] = written;
			sv["keep"] = 1;
			steps.push_back(sv);
		}
	}
	TextGen tg;
	tg.max_items = tier ? 9 : 6;
	tg.ctx_flags = flags;
	tg.comments = 1;
	tg.hostile = true;
	json p = step(0, "parse", 0);
	p["src"] = {{"kind", r.chance(1, 3) ? "fp" : "buf"}, {"chunks", chunks_to_json(gen_text(r, schema["opts"], tg))}};
	p["main"] = 1;
	p["keep"] = 1;
	if (r.chance(1, 4)) {
		static const int errs[] = {ERANGE, EINVAL, ENOENT, ENOMEM};
		p["cberrno"] = errs[r.below(4)]; // every callback of this parse leaves that errno behind
	}
	steps.push_back(p);
	plan["steps"] = steps;
	plan["params"] = {{"kind", "parse"}, {"enumerate", "cb"}, {"registered", registered}};
	plan["frozen"] = json::array({"schemas"});
	return plan;
}

std::string top_level_block(const std::string &dump, const std::string &name)
{
	// lines of a depth-0 option block (the option line and its indented lines)
	std::string out;
	size_t pos = 0;
	bool in = false;
	while (pos < dump.size()) {
		size_t eol = dump.find('\n', pos);
		if (eol == std::string::npos)
			eol = dump.size();
		std::string line = dump.substr(pos, eol - pos);
		bool top = !line.empty() && line[0] != ' ';
		if (top)
			in = line.compare(0, name.size() + 1, name + ":") == 0;
		if (in)
			out += line + "\n";
		pos = eol + 1;
	}
	return out;
}

JudgeOut judge(const json &plan)
{
	JudgeOut out;
	const json &steps = plan["steps"];
	const json params = plan.contains("params") ? plan["params"] : json::object();
	std::string kind = params.value("kind", "parse");
	out.k.add("kind." + kind);
	if (kind == "setter") {
		ExecOpts eo;
		eo.want_tree = true;
		RunResult r = execute(plan, eo);
		add_exec_counters(out, r);
		death_and_stdout(r, "", out.viol);
		out.viol.erase(std::remove_if(out.viol.begin(), out.viol.end(), [](const Violation &v) { return v.cls.compare(0, 7, "stdout:") == 0 || v.cls.compare(0, 6, "stdin:") == 0; }), out.viol.end());
		if (r.died)
			return out;
		json last;
		for (auto &o : r.ops) {
			if (o.index < 0 || (size_t)o.index >= steps.size())
				continue;
			const json &st = steps[o.index];
			if (st.value("setter", 0) && !o.skipped && last.is_object()) {
				std::string mode = st.value("cb2", std::string());
				out.distinct.push_back(fnv64(o.op + "|" + mode));
				bool consulted = false;
				for (auto &c : o.cbs)
					if (c.compare(0, 4, "vcb2") == 0)
						consulted = true;
				if (!consulted)
					out.viol.push_back({"preset-validator-not-consulted:" + o.op, "step #" + std::to_string(o.index) + " (" + o.op + ") did not consult the registered pre-set validation callback", nullptr});
				else if (mode == "veto") {
					out.k.add("fault.veto.fired");
					if (o.ret == 0)
						out.viol.push_back({"veto-ignored:" + o.op, "the pre-set validator vetoed step #" + std::to_string(o.index) + " but the setter returned success", nullptr});
					else if (last != o.tree)
						out.viol.push_back({"veto-changed-state:" + o.op, "the vetoed setter changed the configuration", nullptr});
				} else if (o.ret == 0) {
					std::string want;
					std::string t = o.op.substr(3);
					if (mode == "rewrite") {
						out.k.add("probe.validator_rewrote_value");
						json v = t == "int" ? json(st.value("cb2i", 0L)) : json(st.value("cb2f", 0.0));
						want = store::repr_typed(t, v);
					} else
						want = store::repr_typed(t, st["v"]);
					json tr = o.tree;
					json *node = store::navigate(tr, st, false);
					json *opt = node ? store::find_opt(*node, from_json_bytes(st["name"].get<std::string>()), false) : nullptr;
					if (opt && !(*opt)["v"].empty() && (*opt)["v"][0] != want)
						out.viol.push_back({"setter-stored-wrong-value:" + o.op + ":" + (mode.empty() ? "plain" : mode),
								    "step #" + std::to_string(o.index) + ": the stored value is " + (*opt)["v"][0].dump() + ", expected " + want + (mode == "rewrite" ? " (rewritten by the validator)" : ""), nullptr});
				}
			}
			if (!o.tree.is_null())
				last = o.tree;
		}
		if (out.distinct.empty())
			out.distinct.push_back(plan_fingerprint(plan));
		return out;
	}

	long main_step = -1;
	for (size_t i = 0; i < steps.size(); i++)
		if (steps[i].value("main", 0) && steps[i]["op"] == "parse")
			main_step = (long)i;
	if (main_step < 0 || !steps[main_step]["src"].contains("chunks"))
		return out;
	const json &chunks = steps[main_step]["src"]["chunks"];
	// effective schema: validators registered by path count as declared ones
	json sopts_eff = plan["schemas"][0]["opts"];
	if (params.contains("registered"))
		for (auto &pth : params["registered"]) {
			bool still_registered = false; // the registration step may have been removed by the minimiser
			for (auto &st : steps)
				if (st["op"] == "setvalidate" && strcasecmp(st.value("name", std::string()).c_str(), pth.get<std::string>().c_str()) == 0) // (a case-insensitive context may spell it differently)
					still_registered = true;
			if (!still_registered)
				continue;
			std::string path = pth.get<std::string>();
			json *cur = &sopts_eff;
			size_t pos;
			while ((pos = path.find('|')) != std::string::npos) {
				std::string head = path.substr(0, pos);
				path = path.substr(pos + 1);
				json *next = nullptr;
				for (auto &o : *cur)
					if (o["n"] == head && o.contains("sub"))
						next = &o["sub"];
				if (!next)
					break;
				cur = next;
			}
			for (auto &o : *cur)
				if (o["n"] == path) {
					o["vcb"] = 1;
					out.k.add("probe.validator_registered_by_path");
				}
		}
	const json &sopts = sopts_eff;
	std::vector<Ev> exp = expected_events(sopts, chunks);

	json clean = plan;
	clean["steps"][main_step].erase("fcb");
	if (clean.contains("params"))
		clean["params"].erase("enumerate");
	RunResult base = execute(clean);
	add_exec_counters(out, base);
	const OpResult *bo = nullptr;
	for (auto &x : base.ops)
		if (x.index == (int)main_step)
			bo = &x;
	std::vector<Violation> dv;
	death_and_stdout(base, "", dv);
	for (auto &x : dv)
		if (x.cls.compare(0, 6, "death:") == 0)
			out.viol.push_back(x);
	if (!bo || base.died)
		return out;
	// what errno a callback leaves behind is its own business: the same parse with callbacks that leave errno alone
	// must end alike (a callback that answers 0 has accepted the value, whatever errno says)
	if (clean["steps"][main_step].contains("cberrno")) {
		json quiet = clean;
		quiet["steps"][main_step].erase("cberrno");
		RunResult qr = execute(quiet);
		add_exec_counters(out, qr);
		const OpResult *qo = nullptr;
		for (auto &x : qr.ops)
			if (x.index == (int)main_step)
				qo = &x;
		out.k.add("fault.callback_leaves_errno.fired");
		if (qo && !qr.died && (qo->ret != bo->ret || qo->dump != bo->dump)) {
			out.viol.push_back({"callback-errno-leak", "the parse ends differently when its callbacks leave errno=" + std::to_string(clean["steps"][main_step]["cberrno"].get<int>()) + " behind: ret=" + std::to_string(bo->ret) + " " +
									  diag_str(*bo) + " vs ret=" + std::to_string(qo->ret) + " when they leave errno alone",
					    clean});
			return out;
		}
	}
	if (bo->ret != 0) {
		out.discarded = true;
		out.k.add("baseline_unusable");
		return out;
	}
	out.k.add("texts");
	for (auto &c : bo->cbs)
		if (c.find("MISMATCH") != std::string::npos) {
			out.viol.push_back({"callback-context", "a callback of the accepted parse was handed the wrong context: " + c.substr(0, 300), clean});
			return out;
		}
	std::vector<Obs> obs = observed_events(*bo);
	out.k.add("step.baseline_invocations", obs.size());
	// ---- history check on the baseline
	std::vector<size_t> assign;
	std::string err = match_trace(exp, obs, &assign, true);
	if (!err.empty()) {
		std::string cls = err.find("never invoked") != std::string::npos ? "missing-invocation" : err.find("no counterpart") != std::string::npos ? "spurious-invocation" :
				  err.find("received") != std::string::npos ? "wrong-argument" : err.find("saw last value") != std::string::npos ? "validator-sees-wrong-value" : "wrong-order";
		out.viol.push_back({"trace:" + cls, "callback invocation trace of the accepted parse: " + err, clean});
		return out;
	}
	for (auto &e : obs) {
		if (e.kind == "pcb")
			out.k.add("probe.value_callback_invoked");
		else if (e.kind == "fn")
			out.k.add("probe.function_callback_invoked");
		else
			out.k.add("probe.validator_invoked");
	}
	bool enumerate = params.contains("enumerate");
	uint64_t fp = plan_fingerprint(plan);
	// any non-zero result refuses: the k-th invocation returns 1, -1, 2 or -7
	static const int VERDICTS[] = {1, -1, 2, -7};
	auto check_k = [&](uint64_t k, int verdict) {
		json p2 = clean;
		p2["steps"][main_step]["fcb"] = k;
		p2["steps"][main_step]["fcbv"] = verdict;
		RunResult r = execute(p2);
		add_exec_counters(out, r);
		out.k.add("fault.callback_failure.configured");
		const OpResult *o = nullptr;
		for (auto &x : r.ops)
			if (x.index == (int)main_step)
				o = &x;
		if (!o || r.died) {
			std::vector<Violation> v;
			death_and_stdout(r, "", v);
			for (auto &x : v)
				if (x.cls.compare(0, 6, "death:") == 0) {
					x.plan = p2;
					out.viol.push_back(x);
				}
			return;
		}
		std::vector<Obs> fo = observed_events(*o);
		if (fo.size() < k)
			return; // the k-th invocation does not exist (shrunk plan)
		out.k.add("fault.callback_failure.fired");
		out.distinct.push_back(mix(fp, k));
		std::string which = fo[k - 1].kind;
		if (o->ret == 0) {
			out.viol.push_back({"verdict-ignored:" + which, "invocation #" + std::to_string(k) + " (" + which + " " + fo[k - 1].opt + ") returned non-zero but the parse was accepted", p2});
			return;
		}
		if (fo.size() > k) {
			out.viol.push_back({"callback-after-failure:" + which, "after invocation #" + std::to_string(k) + " (" + which + " " + fo[k - 1].opt + ") returned non-zero, " + std::to_string(fo.size() - k) + " more callback(s) were invoked, first: " +
										    fo[k].kind + " " + fo[k].opt,
					    p2});
			return;
		}
		for (size_t i = 0; i + 1 < k; i++)
			if (fo[i].kind != obs[i].kind || fo[i].opt != obs[i].opt || fo[i].rest != obs[i].rest) {
				out.viol.push_back({"trace-prefix-differs:" + which, "the invocations before the failing one differ from the fault-free run at #" + std::to_string(i + 1), p2});
				return;
			}
		// O-prefix: no later item applied; items before applied exactly
		// map the k-th observed invocation to the chunk (top-level item) it belongs to
		if (k > assign.size())
			return;
		size_t chunk_of_k = exp[assign[k - 1]].chunk;
		json pp = clean;
		json pre = json::array();
		for (size_t c = 0; c < chunk_of_k; c++)
			pre.push_back(chunks[c]);
		pp["steps"][main_step]["src"]["chunks"] = pre;
		RunResult pr = execute(pp);
		add_exec_counters(out, pr);
		const OpResult *po = nullptr;
		for (auto &x : pr.ops)
			if (x.index == (int)main_step)
				po = &x;
		if (!po || po->ret != 0)
			return;
		// the option assigned by the failing item is a don't-care
		std::string item_opt;
		for (auto &t : chunks[chunk_of_k]["toks"])
			if (t[2] == "n") {
				item_opt = t.size() > 6 ? from_json_bytes(t[6].get<std::string>()) : "";
				break;
			}
		for (auto &so : sopts) {
			std::string n = so["n"].get<std::string>();
			if (n == item_opt)
				continue;
			std::string a = top_level_block(o->dump, esc(n)), b = top_level_block(po->dump, esc(n));
			if (a != b) {
				out.viol.push_back({"O-prefix:" + which, "after invocation #" + std::to_string(k) + " (" + which + " " + fo[k - 1].opt + ", item " + std::to_string(chunk_of_k) + ") failed, option '" + n +
										 "' differs from the state after the items before the failing one: a later item was applied or an earlier one was lost\n  after failed parse: " + a.substr(0, 300) +
										 "\n  prefix only:       " + b.substr(0, 300),
						    p2});
				return;
			}
		}
	};
	if (!enumerate) {
		uint64_t k = steps[main_step].value("fcb", (uint64_t)0);
		if (k)
			check_k(k, steps[main_step].value("fcbv", 1));
		return out;
	}
	std::set<std::string> seen_cls;
	for (uint64_t k = 1; k <= obs.size(); k++) {
		int verdict = VERDICTS[(k + fp) % 4];
		note_subcase(json::array({{{"op", "add"}, {"path", "/steps/" + std::to_string(main_step) + "/fcb"}, {"value", k}}, {{"op", "add"}, {"path", "/steps/" + std::to_string(main_step) + "/fcbv"}, {"value", verdict}},
					  {{"op", "remove"}, {"path", "/params/enumerate"}}}));
		size_t before = out.viol.size();
		check_k(k, verdict);
		for (size_t i = before; i < out.viol.size();) {
			if (!seen_cls.insert(out.viol[i].cls).second)
				out.viol.erase(out.viol.begin() + i);
			else
				i++;
		}
	}
	if (obs.empty())
		out.k.add("texts_without_invocations");
	return out;
}

Property P = [] {
	Property p;
	p.id = "C14";
	p.level = "fault_enumeration";
	p.rule = "seeded schemas in which a random subset of options carries simulator value-parsing callbacks (int, float, bool, string, pointer), validators, pre-set validators and "
		 "function options, and rendered texts with lists, '+=', nested sections and function calls whose decoded values the generator knows by construction; the fault-free run's "
		 "complete invocation trace is checked against the text, then for EVERY k the run is repeated with the k-th invocation returning non-zero; one plan in five exercises veto / "
		 "rewrite of by-name setters; distinct = distinct (text, k) pairs plus setter modes";
	p.assumptions = {"options with value callbacks carry no parsed defaults, so every invocation belongs to a token of the text",
			 "validators must run at least once after each stored value and before the next callback-visible item; the extra invocation at the closing brace of a list is accepted but not required",
			 "for run k: the option assigned by the failing item is a don't-care (O-prefix); only top-level option blocks are compared with the parse of the items before it",
			 "a plan whose fault-free text is not accepted is discarded and counted"};
	p.probes = {"value_callback_invoked", "function_callback_invoked", "validator_invoked", "validator_rewrote_value", "validator_registered_by_path"};
	p.components = {{"confuse.c parser / cfg_setopt / setters", "real"}, {"lexer", "real"}, {"value, validation, pre-set validation, function and release callbacks", "stub: simulator parties whose verdicts come from the plan"}};
	p.quick_seconds = 20;
	p.thorough_seconds = 400;
	p.generate = generate;
	p.judge = judge;
	return p;
}();
Registrar reg(&P);

} // namespace
} // namespace sim
