// Reference conversion models shared by C04 (decides them) and C09/C10 (use them to know whether a text converts).
#pragma once
#include <cerrno>
#include <climits>
#include <cmath>
#include <cstdlib>
#include <string>

namespace sim {

// ---- reference models.  Verdict: 1 accept (value set), 0 reject, -1 don't care (statement silent)
inline int model_int(const std::string &t, long *v)
{
	if (t.empty())
		return 0;
	size_t i = 0;
	bool neg = false, sign = false;
	if (t[0] == '-' || t[0] == '+') {
		neg = t[0] == '-';
		sign = true;
		i = 1;
	}
	if (i >= t.size())
		return 0;
	int radix = 10;
	size_t d = i;
	if (t[i] == '0' && i + 1 < t.size() && (t[i + 1] == 'x' || t[i + 1] == 'X' || t[i + 1] == 'b' || t[i + 1] == 'B')) {
		if (t[i + 1] == 'X' || t[i + 1] == 'B')
			return -1; // only the lower-case prefixes are documented
		radix = t[i + 1] == 'x' ? 16 : 2;
		d = i + 2;
	} else if (t[i] == '0') {
		radix = 8;
		d = i + 1;
		if (d == t.size()) {
			*v = 0;
			return 1; // "0", "-0", "+0"
		}
	}
	if (sign && radix != 10)
		return -1; // sign in front of a prefixed numeral: the statement says "otherwise signed decimal"
	if (d >= t.size())
		return 0; // prefix without a digit
	unsigned __int128 acc = 0;
	for (size_t k = d; k < t.size(); k++) {
		int dv;
		char c = t[k];
		if (c >= '0' && c <= '9')
			dv = c - '0';
		else if (c >= 'a' && c <= 'f')
			dv = c - 'a' + 10;
		else if (c >= 'A' && c <= 'F')
			dv = c - 'A' + 10;
		else
			return 0;
		if (dv >= radix)
			return 0;
		acc = acc * radix + dv;
		if (acc > ((unsigned __int128)1 << 70))
			acc = (unsigned __int128)1 << 70; // saturate: certainly out of range
	}
	unsigned __int128 lim = neg ? (unsigned __int128)LONG_MAX + 1 : (unsigned __int128)LONG_MAX;
	if (acc > lim)
		return 0;
	*v = neg ? (long)(-(__int128)acc) : (long)acc;
	return 1;
}

inline int model_float(const std::string &t, double *v)
{
	// plain decimal floating point numerals only; everything the statement is silent about is a don't-care
	if (t.empty())
		return 0;
	std::string low;
	for (char c : t)
		low += (char)tolower(c);
	size_t s0 = (low[0] == '+' || low[0] == '-') ? 1 : 0;
	std::string body = low.substr(s0);
	if (body == "inf" || body == "infinity" || body.compare(0, 3, "nan") == 0)
		return -1;
	if (body.compare(0, 2, "0x") == 0)
		return -1; // hex floats
	size_t i = s0, nd = 0;
	while (i < t.size() && isdigit((unsigned char)t[i])) {
		i++;
		nd++;
	}
	if (i < t.size() && t[i] == '.') {
		i++;
		while (i < t.size() && isdigit((unsigned char)t[i])) {
			i++;
			nd++;
		}
	}
	if (nd == 0)
		return 0;
	if (i < t.size() && (t[i] == 'e' || t[i] == 'E')) {
		size_t j = i + 1;
		if (j < t.size() && (t[j] == '+' || t[j] == '-'))
			j++;
		size_t ed = 0;
		while (j < t.size() && isdigit((unsigned char)t[j])) {
			j++;
			ed++;
		}
		if (ed == 0)
			return 0;
		i = j;
	}
	if (i != t.size())
		return 0;
	errno = 0;
	char *end = nullptr;
	double d = strtod(t.c_str(), &end);
	if (errno == ERANGE)
		return 0; // overflow and underflow: outside the range a double can hold; accepting it would silently turn it into inf / 0 / a denormal
	(void)d;
	*v = d;
	return 1;
}

inline int model_bool(const std::string &t, long *v)
{
	std::string low;
	for (char c : t)
		low += (char)tolower(c);
	if (low == "true" || low == "yes" || low == "on") {
		*v = 1;
		return 1;
	}
	if (low == "false" || low == "no" || low == "off") {
		*v = 0;
		return 1;
	}
	return 0;
}


} // namespace sim
