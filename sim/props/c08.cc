// C08 — a parse depends only on its own input, not on earlier parses.
// Histories of aborted / accepted parses, then probes; oracles O-scrub, O-fresh, O-solo (DESIGN 7/C08).
#include "common.h"

namespace sim {
namespace {

json schema8()
{
	json ms_sub = json::array({{{"n", "k"}, {"t", "int"}, {"d", 0}}, {{"n", "v"}, {"t", "str"}, {"d", "x"}}, {{"n", "include"}, {"t", "func"}, {"fn", "include"}}});
	json one_sub = json::array({{{"n", "x"}, {"t", "int"}, {"d", 1}}, {{"n", "xl"}, {"t", "int"}, {"fl", F_LIST}, {"dp", "{7}"}}, {{"n", "include"}, {"t", "func"}, {"fn", "include"}}});
	json opts = json::array({
		{{"n", "a"}, {"t", "int"}, {"d", 0}},
		{{"n", "f"}, {"t", "float"}, {"d", 0.5}},
		{{"n", "b"}, {"t", "bool"}, {"d", false}},
		{{"n", "s"}, {"t", "str"}, {"d", "dflt"}},
		{{"n", "l"}, {"t", "int"}, {"fl", F_LIST}, {"dp", "{1, 2}"}},
		{{"n", "sl"}, {"t", "str"}, {"fl", F_LIST}},
		{{"n", "ms"}, {"t", "sec"}, {"fl", F_MULTI | F_TITLE}, {"sub", ms_sub}},
		{{"n", "one"}, {"t", "sec"}, {"sub", one_sub}},
		{{"n", "fn"}, {"t", "func"}, {"fn", "sim"}},
		{{"n", "vi"}, {"t", "int"}, {"d", 3}, {"vcb", 1}},
		{{"n", "include"}, {"t", "func"}, {"fn", "include"}},
		// deprecated options: every assignment is reported (and, with DROP, discarded) - on every parse, not only the first
		{{"n", "old"}, {"t", "int"}, {"d", 0}, {"fl", F_DEPRECATED}},
		{{"n", "gone"}, {"t", "str"}, {"fl", F_DEPRECATED | F_DROP}},
	});
	return {{"opts", opts}};
}

json world8()
{
	json fs = json::array();
	fs.push_back(fs_file("/inc/good.conf", "a = 77\nsl += {inc}\n"));
	fs.push_back(fs_file("/cfg/main.conf", "b = on\ninclude(\"/inc/good.conf\")\ns = \"main\"\n"));
	// error inside an included file at depth d
	for (int d = 1; d <= 3; d++)
		for (int k = 1; k <= d; k++) {
			std::string path = "/inc/e" + std::to_string(d) + "_" + std::to_string(k) + ".conf";
			std::string body = k < d ? "f = 1.5\ninclude(\"/inc/e" + std::to_string(d) + "_" + std::to_string(k + 1) + ".conf\")\n" : "a = 1\nb = maybe\n";
			fs.push_back(fs_file(path, body));
		}
	for (int k = 0; k < 12; k++)
		fs.push_back(fs_file("/inc/deep" + std::to_string(k) + ".conf", k < 11 ? "include(\"/inc/deep" + std::to_string(k + 1) + ".conf\")\n" : "a = 5\n"));
	fs.push_back(fs_file("/inc/self.conf", "a = 2\ninclude(\"/inc/self.conf\")\n"));
	fs.push_back(fs_file("/inc/unterminated.conf", "a = 3\ns = \"never closed\n"));
	fs.push_back(fs_file("/inc/incomment.conf", "a = 4 /* never closed\n"));
	fs.push_back({{"path", "/inc/dir"}, {"kind", "dir"}});

	fs.push_back(fs_file("/inc/one.conf", "x = 9\nxl += {10}\n"));
	fs.push_back(fs_file("/inc/good_ms.conf", "k = 5\nv = \"from file\"\n"));
	// the callbacks of these run while an included file is open (re-entry probes)
	fs.push_back(fs_file("/inc/reentry.conf", "b = on\nfn(\"x\")\nvi = 6\nsl += {inner}\n"));
	fs.push_back(fs_file("/inc/reentry2.conf", "f = 0.5\ninclude(\"/inc/reentry.conf\")\nl += 3\n"));
	json w;
	w["fs"] = fs;
	w["env"] = {{"X", "1"}};
	return w;
}

const char *PROBES[] = {
	"a = 9\n",
	"a = 0x1F\nf = 2.5\nb = yes\ns = 'sq\\'x'\n",
	"l = {3, 4}\nl += 5\nsl = {\"a\", b, 'c'}\n",
	"ms \"t1\" { k = 1 v = \"q\" }\nms t2 { k = 2 }\none { x = 5 xl += {8} }\n",
	"fn(\"x\", y)\nfn()\n",
	"include(\"/inc/good.conf\")\ns = \"after\"\n",
	"s = \"${X}-${NOPE:-dflt}\"\nsl = {${X}}\n",
	"# c1\n// c2\n/* c3\n c4 */ a = 010\ns = \"multi\nline\\\n cont\"\nvi = 4\n",
	"a = 1\nl = {1, zz}\n",
	"# note one\na = 1\n/* block\n two */ s = \"x\"\n##\nb = on\n", // parsed with annotations on
	"one { x = 3 # tail\n}\nms \"a\\\"b\" { v = 'it\\'s' }\nsl += \"x\\\ny\"\n",
	"old = 4\ngone = \"x\"\na = 2\n",
	// texts whose first token is punctuation: the diagnostic quotes the token, which must be this parse's own
	",\na = 1\n", "}\n", ")\n", "= 3\n", "+= 3\n", "{\n", "(\n", "a , 1\n", "l = {1 = 2}\n", "fn(a = b)\n",
	"\n# spread over some lines\none {\n x = 7\n\n xl = {1,\n 2}\n}\nms \"t1\" {\n k = 3\n\n}\n",
};
const int NPROBES = sizeof(PROBES) / sizeof(PROBES[0]);

struct EventKind {
	const char *name;
	int weight;
};
const EventKind EVENTS[] = {
	{"ok_buf", 3}, {"ok_fp", 2}, {"ok_file_inc", 2}, {"end_in_dq", 3}, {"end_in_sq", 2}, {"end_in_comment", 3},
	{"trailing_backslash", 2}, {"err_in_list", 2}, {"err_in_func_args", 2}, {"err_in_nested", 2}, {"err_in_include", 3},
	{"include_missing", 2}, {"include_depth", 2}, {"include_self", 1}, {"int_range_parser", 2}, {"float_range_parser", 1},
	{"range_setopt", 2}, {"bad_escape", 2}, {"unknown_option", 1}, {"validator_veto", 2}, {"free_reinit", 2},
	{"end_in_dq_in_include", 2}, {"range_setmulti", 2}, {"end_in_comment_in_include", 1}, {"include_dir", 2}, {"assignment_cut_after_equals", 2}, {"deprecated_assigned", 2}, {"sections_opened", 2},
};
const int NEVENTS = sizeof(EVENTS) / sizeof(EVENTS[0]);

void emit_event(Rng &r, int kind, int cl, int ctx, json &steps, const json &schema)
{
	std::string k = EVENTS[kind].name;
	auto buf = [&](const std::string &t) { steps.push_back(parse_step(cl, ctx, r.chance(1, 4) ? "fp" : "buf", t)); };
	if (k == "ok_buf" || k == "ok_fp") {
		TextGen tg;
		tg.max_items = 5;
		std::vector<Chunk> cs = gen_text(r, schema["opts"], tg);
		// drop include() items: the generator's default target does not exist
		std::vector<Chunk> keep;
		for (auto &c : cs)
			if (c.t.find("include") == std::string::npos)
				keep.push_back(c);
		json s = step(cl, "parse", ctx);
		s["src"] = {{"kind", k == "ok_fp" ? "fp" : "buf"}, {"chunks", chunks_to_json(keep)}};
		steps.push_back(s);
	} else if (k == "ok_file_inc")
		steps.push_back(parse_file_step(cl, ctx, "/cfg/main.conf"));
	else if (k == "end_in_dq")
		buf(r.chance(1, 2) ? "s = \"abc" : "a = 1\nsl = {\"x\", \"y\nz");
	else if (k == "end_in_sq")
		buf(r.chance(1, 2) ? "s = 'abc" : "a = 1\ns = 'x\ny");
	else if (k == "end_in_comment")
		buf(r.chance(1, 2) ? "a = 1 /* unterminated" : "b = off\n/* never\n closed *");
	else if (k == "trailing_backslash")
		buf(r.chance(1, 2) ? "s = \"abc\\" : "s = 'abc\\");
	else if (k == "err_in_list")
		buf(r.chance(1, 2) ? "l = {1, 2,, }\n" : "l = {1 2}\n");
	else if (k == "err_in_func_args")
		buf(r.chance(1, 2) ? "fn(a, b c)\n" : "fn(\"x\", =)\n");
	else if (k == "err_in_nested")
		buf(r.chance(1, 2) ? "ms \"t\" { k = zz }\n" : "one { x = }\n");
	else if (k == "err_in_include") {
		int d = (int)r.range(1, 3);
		buf("a = 6\ninclude(\"/inc/e" + std::to_string(d) + "_1.conf\")\n");
	} else if (k == "include_missing")
		buf("include(\"/inc/nope.conf\")\n");
	else if (k == "include_depth")
		buf("include(\"/inc/deep0.conf\")\n");
	else if (k == "include_self")
		buf("include(\"/inc/self.conf\")\n");
	else if (k == "int_range_parser") {
		buf(r.chance(1, 2) ? "a = 99999999999999999999\n" : "l += 99999999999999999999\n");
		steps.back()["notrace"] = 1;
	} else if (k == "float_range_parser") {
		buf("f = 1e999\n");
		steps.back()["notrace"] = 1;
	} else if (k == "range_setopt") {
		json s = step(cl, "setopt", ctx);
		s["name"] = r.chance(1, 2) ? "a" : "l";
		s["v"] = "99999999999999999999";
		s["notrace"] = 1;
		steps.push_back(s);
	} else if (k == "range_setmulti") {
		json s = step(cl, "setmulti", ctx);
		s["name"] = "l";
		s["vals"] = json::array({"1", "99999999999999999999"});
		s["notrace"] = 1;
		steps.push_back(s);
	} else if (k == "bad_escape")
		buf(r.chance(1, 2) ? "s = \"\\400\"\n" : "s = \"\\9\"\n");
	else if (k == "unknown_option")
		buf("zzz = 1\n");
	else if (k == "validator_veto") {
		json s = parse_step(cl, ctx, "buf", "vi = 5\na = 2\n");
		s["fcb"] = 1;
		steps.push_back(s);
	} else if (k == "free_reinit") {
		steps.push_back(step(cl, "free", ctx));
		steps.push_back(step(cl, "init", ctx));
	} else if (k == "end_in_dq_in_include")
		buf("include(\"/inc/unterminated.conf\")\n");
	else if (k == "end_in_comment_in_include")
		buf("include(\"/inc/incomment.conf\")\n");
	else if (k == "include_dir")
		buf("a = 8\ninclude(\"/inc/dir\")\n");
	else if (k == "assignment_cut_after_equals")
		buf(r.chance(1, 2) ? "l =" : "sl = (");
	else if (k == "deprecated_assigned")
		buf(r.chance(1, 2) ? "old = 3\ngone = y\n" : "gone = \"z\"\n");
	else if (k == "sections_opened")
		buf(r.chance(1, 2) ? "\n\n\none {\n x = 2\n\n}\nms \"t1\" {\n k = 1\n}\n" : "ms \"t1\" { k = 1 }\n\n\n\n\nms \"t2\" {\n\n k = 2\n}\none { x = 1 }\n");
}

json generate(uint64_t seed, uint64_t idx, int tier)
{
	Rng r(seed);
	json plan;
	json schema = schema8();
	plan["schemas"] = json::array({schema});
	plan["world"] = world8();
	for (int i = 0; i < NPROBES; i++)
		plan["world"]["fs"].push_back(fs_file("/probe/p" + std::to_string(i) + ".conf", PROBES[i]));
	plan["knobs"] = {{"tty", r.chance(1, 5)}, {"fill", r.chance(1, 2) ? 0xA5 : (r.chance(1, 2) ? 0 : 0xFF)}, {"recycle", r.chance(1, 2)}};
	json steps = json::array();
	int nclients = r.chance(1, 3) ? 2 : 1;
	int nctx = r.chance(1, 2) ? 2 : 1;
	for (int cl = 0; cl < nclients; cl++)
		for (int c = 0; c < nctx; c++)
			steps.push_back(step(cl, "init", c));
	// history: short histories dominate
	int maxlen = tier ? 6 : 4;
	int len = 1 + (int)std::min<uint64_t>(r.below(maxlen), r.below(maxlen));
	int totw = 0;
	for (int i = 0; i < NEVENTS; i++)
		totw += EVENTS[i].weight;
	json kinds = json::array();
	// thorough tier: every history of length 1 and 2 over the event kinds is enumerated first (exhaustive up to that
	// bound, as the quantifier asks); longer histories are sampled
	std::vector<int> forced;
	if (tier && idx < (uint64_t)NEVENTS)
		forced = {(int)idx};
	else if (tier && idx < (uint64_t)NEVENTS + (uint64_t)NEVENTS * NEVENTS)
		forced = {(int)((idx - NEVENTS) / NEVENTS), (int)((idx - NEVENTS) % NEVENTS)};
	if (!forced.empty())
		len = (int)forced.size();
	for (int i = 0; i < len; i++) {
		int pick = (int)r.below(totw), kind = 0;
		for (; kind < NEVENTS; kind++) {
			if (pick < EVENTS[kind].weight)
				break;
			pick -= EVENTS[kind].weight;
		}
		if (!forced.empty())
			kind = forced[i];
		int cl = (int)r.below(nclients), c = (int)r.below(nctx);
		emit_event(r, kind, cl, c, steps, schema);
		kinds.push_back(EVENTS[kind].name);
	}
	// probes: into a new context and into a surviving one
	int np = (int)r.range(2, 4);
	json probe_steps = json::array();
	for (int i = 0; i < np; i++) {
		int p = (int)r.below(NPROBES);
		int cl = (int)r.below(nclients);
		int fresh_ctx = 10 + i;
		size_t first = steps.size();
		json pinit = step(cl, "init", fresh_ctx);
		if (p == 9)
			pinit["flags"] = F_COMMENTS;
		steps.push_back(pinit);
		// by buffer, by caller-owned stream, or by name: then the library opens the FILE itself - possibly at the
		// address of one it closed earlier
		json ps = r.chance(1, 4) ? parse_file_step(cl, fresh_ctx, "/probe/p" + std::to_string(p) + ".conf") : parse_step(cl, fresh_ctx, r.chance(1, 3) ? "fp" : "buf", PROBES[p]);
		steps.push_back(ps);
		probe_steps.push_back(json::array({first, first + 1}));
		if (r.chance(1, 2))
			steps.push_back(parse_step(cl, (int)r.below(nctx), "buf", PROBES[p]));
		if (r.chance(1, 4)) {
			// API probes that convert text (errno-sensitive routes)
			json s = step(cl, "setopt", fresh_ctx);
			s["name"] = "a";
			s["v"] = "7";
			steps.push_back(s);
			json m = step(cl, "setmulti", fresh_ctx);
			m["name"] = "l";
			m["vals"] = json::array({"7", "8"});
			steps.push_back(m);
		}
	}
	// a rejected probe into a surviving (re-used) context: return code and diagnostics must not depend on what was
	// parsed into it before (its values legitimately do)
	if (r.chance(1, 2)) {
		// the last ones: an error inside a section that an earlier parse may already have opened; deprecated options assigned again
		static const char *bad[] = {"a = 1\nl = {1, zz}\n", "\n\n\nb = maybe\n", "# c\n/* x\n y */\nf = 1e999\n", "s = \"two\nlines\"\nzzz = 1\n",
					    "one {\n x = 3\n xl = {1, zz}\n}\n", "a = 1\nms \"t1\" {\n\n k = zz\n}\n", "old = 5\ngone = \"g\"\nb = maybe\n", "gone = 1\nold = 2\na = 3\n"};
		json ps = parse_step((int)r.below(nclients), (int)r.below(nctx), "buf", bad[r.below(8)]);
		ps["ctxprobe"] = 1;
		steps.push_back(ps);
	}
	// '+=' into a re-used context appends to what the list holds, whatever was aborted there before
	if (r.chance(1, 2)) {
		json ps = parse_step((int)r.below(nclients), (int)r.below(nctx), "buf", r.chance(1, 2) ? "l += {41, 42}\n" : "sl += {zz9}\n");
		ps["appendprobe"] = 1;
		steps.push_back(ps);
	}
	// what a context is told between two parses (a search directory) counts for the second one, also inside a section
	// the first one has opened already
	if (r.chance(1, 4)) {
		int cl = (int)r.below(nclients);
		steps.push_back(step(cl, "init", 8));
		if (r.chance(1, 2)) {
			// a first search directory (without the files wanted later) is there before the first parse
			json a0 = step(cl, "addpath", 8);
			a0["dir"] = "/cfg";
			steps.push_back(a0);
		}
		if (r.chance(3, 4)) {
			json h = parse_step(cl, 8, "buf", r.chance(1, 2) ? "one { x = 1 }\n" : "ms \"t1\" { k = 1 }\none { }\n");
			h["hist"] = 1;
			steps.push_back(h);
		}
		json a = step(cl, "addpath", 8);
		a["dir"] = "/inc";
		steps.push_back(a);
		if (r.chance(1, 2)) // ... and replaces the error function: every diagnostic of the next parse goes to the new one
			steps.push_back(step(cl, "seterrfn", 8));
		static const char *hp[] = {"one { include(\"one.conf\") }\n", "ms \"t1\" { include(\"good_ms.conf\") }\ninclude(\"good.conf\")\n", "one { x = zz }\n", "one { include(\"nope.conf\") }\n",
					   "ms \"t1\" { k = zz }\n"};
		json ps = parse_step(cl, 8, "buf", hp[r.below(5)]);
		ps["histprobe"] = 1;
		ps["pin"] = 1;
		steps.push_back(ps);
	}
	// re-entry: while a text is being parsed, a callback (application code) releases another context, or creates,
	// fills and releases a temporary one; neither may change what this parse does
	if (r.chance(1, 3)) {
		int cl = (int)r.below(nclients), c = (int)r.below(nctx);
		steps.push_back(step(cl, "init", 7));
		static const char *texts[] = {"fn(\"x\")\na = 41\nl += 9\ns = \"after\"\n", "b = on\nvi = 8\na = 42\nsl += {w}\n", "a = 40\ninclude(\"/inc/reentry.conf\")\ns = \"after\"\n",
					      "include(\"/inc/reentry2.conf\")\na = 44\n"};
		unsigned ti = (unsigned)r.below(4);
		json ps = parse_step(cl, c, r.chance(1, 4) ? "fp" : "buf", texts[ti]);
		static const char *acts[] = {"free_other", "nested_parse", "parse_other", "nested_parse_refused", "set_self"};
		ps["cbact"] = acts[r.below(ti == 2 ? 4 : 5)]; // set_self touches 'a', which every text but the third assigns after the callback
		ps["cbact_at"] = 1;
		ps["cbact_c"] = 7;
		ps["reentry"] = 1;
		ps["pin"] = 1; // the expectation is keyed to this text: the minimiser removes the step whole or not at all
		steps.push_back(ps);
		steps.push_back(parse_step(cl, c, "buf", "f = 2.25\n"));
	}
	plan["steps"] = steps;
	plan["params"] = {{"history", kinds}, {"clients", nclients}, {"probes", probe_steps}};
	return plan;
}

// first op at which two runs of the same step list differ
int first_divergence(const RunResult &a, const RunResult &b, std::string *what)
{
	size_t n = std::min(a.ops.size(), b.ops.size());
	for (size_t i = 0; i < n; i++) {
		const OpResult &x = a.ops[i], &y = b.ops[i];
		if (x.op != y.op || x.index != y.index) {
			*what = "structure";
			return (int)i;
		}
		if (x.skipped != y.skipped || x.ret != y.ret || x.death != y.death) {
			*what = "ret";
			return (int)i;
		}
		if (diag_str(x) != diag_str(y)) {
			*what = "diags";
			return (int)i;
		}
		if (x.dump != y.dump || x.sres != y.sres) {
			*what = "values";
			return (int)i;
		}
		if (x.cbs != y.cbs) {
			*what = "callbacks";
			return (int)i;
		}
	}
	if (a.ops.size() != b.ops.size()) {
		*what = "length";
		return (int)n;
	}
	return -1;
}

JudgeOut judge(const json &plan)
{
	JudgeOut out;
	RunResult base = execute(plan);
	add_exec_counters(out, base);
	note_schedule(out, plan);
	ExecOpts so;
	so.scrub = true;
	RunResult scrub = execute(plan, so);
	add_exec_counters(out, scrub);

	// coverage / reach
	for (auto &o : base.ops) {
		if (o.op == "parse") {
			if (o.start_cond_before != 0)
				out.k.add("probe.parse_begun_outside_INITIAL");
			if (o.inc_depth_before != 0)
				out.k.add("parse_begun_with_nonempty_include_stack");
			if (o.ret != 0 && !o.diags.empty() && o.diags[0].file.compare(0, 5, "/inc/") == 0)
				out.k.add("probe.parse_failed_inside_included_file");
		}
	}
	std::string hist;
	if (plan.contains("params") && plan["params"].contains("history")) {
		for (auto &h : plan["params"]["history"])
			hist += h.get<std::string>() + ">";
		out.k.add("histories");
		out.distinct.push_back(fnv64(hist));
		if (plan["params"].value("clients", 1) > 1)
			out.k.add("probe.two_clients_interleaved");
	} else
		out.distinct.push_back(plan_fingerprint(plan));

	death_and_stdout(base, "", out.viol);
	// deaths are reported with their class; stdout belongs to C02 only
	out.viol.erase(std::remove_if(out.viol.begin(), out.viol.end(), [](const Violation &v) { return v.cls.compare(0, 7, "stdout:") == 0 || v.cls.compare(0, 6, "stdin:") == 0; }),
		       out.viol.end());

	// ---- O-scrub
	std::string what;
	int d = first_divergence(base, scrub, &what);
	if (d >= 0 && out.viol.empty()) {
		const OpResult &bo = base.ops[std::min((size_t)d, base.ops.size() - 1)];
		std::string leaked = "unknown";
		if (bo.start_cond_before != 0)
			leaked = "start_condition";
		else if (bo.inc_depth_before != 0)
			leaked = "include_stack";
		else {
			ExecOpts eo;
			eo.errno_override = 0;
			RunResult er = execute(plan, eo);
			add_exec_counters(out, er);
			std::string w2;
			if (first_divergence(er, scrub, &w2) < 0)
				leaked = "errno";
		}
		std::string detail = "op #" + std::to_string(bo.index) + " (" + bo.op + ") differs in " + what + " between the history as executed and the same history with the scanner image and errno reset before every call.\n  as executed: " +
				     outcome(bo).substr(0, 600) + "\n  scrubbed:    " + (d < (int)scrub.ops.size() ? outcome(scrub.ops[d]).substr(0, 600) : "-");
		out.viol.push_back({"O-scrub:" + what + ":leaked=" + leaked + ":" + bo.op, detail, nullptr});
	}

	// ---- O-fresh: each probe into a new context equals the probe alone in a fresh image
	if (out.viol.empty() && plan.contains("params") && plan["params"].contains("probes")) {
		for (auto &pr : plan["params"]["probes"]) {
			size_t i0 = pr[0].get<size_t>(), i1 = pr[1].get<size_t>();
			if (i1 >= plan["steps"].size())
				continue;
			json solo = plan;
			solo["steps"] = json::array({plan["steps"][i0], plan["steps"][i1]});
			solo.erase("params");
			RunResult fr = execute(solo);
			add_exec_counters(out, fr);
			const OpResult *bp = nullptr;
			for (auto &o : base.ops)
				if (o.index == (int)i1)
					bp = &o;
			if (!bp || fr.ops.size() < 2)
				continue;
			if (outcome(*bp) != outcome(fr.ops[1])) {
				out.viol.push_back({"O-fresh:parse", "probe parse #" + std::to_string(i1) + " into a new context differs from the same probe in a fresh process image\n  after history: " +
										outcome(*bp).substr(0, 600) + "\n  fresh:         " + outcome(fr.ops[1]).substr(0, 600),
						    nullptr});
				break;
			}
		}
	}

	// ---- O-ctx: a rejected probe into a re-used context reports as into a fresh one
	if (out.viol.empty())
		for (size_t i = 0; i < plan["steps"].size(); i++) {
			const json &st = plan["steps"][i];
			if (!st.value("ctxprobe", 0))
				continue;
			const OpResult *bp = nullptr;
			for (auto &o : base.ops)
				if (o.index == (int)i)
					bp = &o;
			if (!bp || bp->skipped)
				continue;
			json solo = plan;
			json init = step(st.value("cl", 0), "init", st.value("c", 0));
			solo["steps"] = json::array({init, st});
			solo.erase("params");
			RunResult fr = execute(solo);
			add_exec_counters(out, fr);
			if (fr.ops.size() < 2)
				continue;
			out.k.add("probe.rejected_probe_into_reused_context");
			const OpResult &fo = fr.ops[1];
			if (bp->ret != fo.ret || diag_str(*bp) != diag_str(fo))
				out.viol.push_back({"O-ctx:diags", "a rejected parse into a re-used context reports differently than into a fresh context: ret=" + std::to_string(bp->ret) + " diagnostics " + diag_str(*bp) + " vs ret=" +
									   std::to_string(fo.ret) + " diagnostics " + diag_str(fo) + " (fresh)",
						    nullptr});
		}

	// ---- O-append: an accepted '+=' into a re-used context appends to the values the context held before the parse
	if (out.viol.empty())
		for (size_t i = 0; i < plan["steps"].size(); i++) {
			const json &st = plan["steps"][i];
			if (!st.value("appendprobe", 0))
				continue;
			const OpResult *bp = nullptr, *prev = nullptr;
			for (auto &o : base.ops) {
				if (o.index == (int)i)
					bp = &o;
				else if (o.index < (int)i && o.client == st.value("cl", 0) && o.ctx == st.value("c", 0) && !o.dump.empty())
					prev = &o;
			}
			if (!bp || !prev || bp->skipped || bp->ret != 0 || prev->op == "free")
				continue;
			std::string text = source_text(st["src"]);
			std::string name = text.substr(0, text.find(' '));
			auto values_of = [&](const std::string &dump) {
				size_t p = dump.find("\n" + name + ":");
				if (dump.compare(0, name.size() + 1, name + ":") == 0)
					p = 0;
				else if (p == std::string::npos)
					return std::string("?");
				else
					p++;
				size_t eol = dump.find('\n', p);
				std::string line = dump.substr(p, eol - p);
				size_t b = line.find('['), e = line.rfind(']');
				return b == std::string::npos || e == std::string::npos ? std::string("?") : line.substr(b + 1, e - b - 1);
			};
			std::string before = values_of(prev->dump), after = values_of(bp->dump);
			std::string added = name == "l" ? "41,42" : "\"zz9\"";
			std::string want = before.empty() ? added : before + "," + added;
			out.k.add("probe.append_into_reused_context");
			if (before != "?" && after != want)
				out.viol.push_back({"O-append", "'" + name + " += ...' parsed into a re-used context must append to its current values [" + before + "] but the option now holds [" + after + "]: an earlier (aborted) parse left a trace", nullptr});
		}

	// ---- O-hist: return code and diagnostics of a parse do not depend on the earlier parses into the same context
	// (everything else the context was told - here a search directory - being equal)
	if (out.viol.empty())
		for (size_t i = 0; i < plan["steps"].size(); i++) {
			const json &st = plan["steps"][i];
			if (!st.value("histprobe", 0))
				continue;
			json nohist = plan;
			json kept = json::array();
			std::vector<size_t> map;
			bool any = false;
			for (size_t k = 0; k < plan["steps"].size(); k++) {
				const json &s0 = plan["steps"][k];
				if (s0.value("hist", 0) && s0.value("cl", 0) == st.value("cl", 0) && s0.value("c", 0) == st.value("c", 0) && k < i) {
					any = true;
					continue;
				}
				map.push_back(k);
				kept.push_back(s0);
			}
			if (!any)
				continue;
			nohist["steps"] = kept;
			nohist.erase("params");
			RunResult nr = execute(nohist);
			add_exec_counters(out, nr);
			const OpResult *a = nullptr, *b = nullptr;
			for (auto &o : base.ops)
				if (o.index == (int)i)
					a = &o;
			for (auto &o : nr.ops)
				if (o.index >= 0 && (size_t)o.index < map.size() && map[o.index] == i)
					b = &o;
			if (!a || !b || a->skipped || b->skipped)
				continue;
			out.k.add("probe.parse_after_history_vs_without");
			if (a->ret != b->ret || diag_str(*a) != diag_str(*b)) {
				out.viol.push_back({"O-hist:parse", "op #" + std::to_string(i) + " ends differently after an earlier parse into the same context than without it: ret=" + std::to_string(a->ret) + " " + diag_str(*a) +
									    " vs ret=" + std::to_string(b->ret) + " " + diag_str(*b),
						    nullptr});
				break;
			}
		}

	// ---- O-reentry: what a callback does to ANOTHER context while this one is being parsed does not change this parse
	if (out.viol.empty())
		for (size_t i = 0; i < plan["steps"].size(); i++) {
			const json &st = plan["steps"][i];
			if (!st.value("reentry", 0) || !st.contains("cbact"))
				continue;
			json quiet = plan;
			for (const char *k : {"cbact", "cbact_at", "cbact_c"})
				quiet["steps"][i].erase(k);
			RunResult qr = execute(quiet);
			add_exec_counters(out, qr);
			bool acted = false;
			for (auto &o : base.ops)
				if (o.index == (int)i)
					for (auto &c : o.cbs)
						if (c.compare(0, 4, "act ") == 0) {
							acted = true;
							if (c.find("MISMATCH") != std::string::npos)
								out.viol.push_back({"O-reentry:nested_call_arguments", "op #" + std::to_string(i) + ": " + c, nullptr});
						}
			if (!out.viol.empty())
				break;
			if (!acted)
				continue;
			out.k.add("probe.callback_acted_on_another_context");
			size_t j = 0;
			for (auto &o : base.ops) {
				if (o.index < (int)i || o.client != st.value("cl", 0) || o.ctx != st.value("c", 0) || o.op == "end")
					continue;
				while (j < qr.ops.size() && qr.ops[j].index != o.index)
					j++;
				if (j >= qr.ops.size())
					break;
				if (outcome(o) != outcome(qr.ops[j])) {
					out.viol.push_back({"O-reentry:" + st["cbact"].get<std::string>(), "op #" + std::to_string(o.index) + " (" + o.op + "): a callback of this parse acted on another context (" + st["cbact"].get<std::string>() +
												   ") and the outcome for THIS context changed\n  with the action:    " + outcome(o).substr(0, 500) + "\n  without the action: " +
												   outcome(qr.ops[j]).substr(0, 500),
							    nullptr});
					break;
				}
			}
			if (!out.viol.empty())
				break;
		}

	// ---- O-trace: a text / value that fails its range check leaves no trace in the context it was meant for
	if (out.viol.empty())
		for (size_t i = 0; i < plan["steps"].size(); i++) {
			const json &st = plan["steps"][i];
			if (!st.value("notrace", 0))
				continue;
			const OpResult *bp = nullptr, *prev = nullptr;
			for (auto &o : base.ops) {
				if (o.index == (int)i)
					bp = &o;
				else if (o.index < (int)i && o.client == st.value("cl", 0) && o.ctx == st.value("c", 0) && !o.dump.empty())
					prev = &o;
			}
			if (!bp || !prev || bp->skipped || bp->ret == 0 || prev->op == "free" || bp->dump.empty())
				continue;
			out.k.add("probe.range_failure_trace_checked");
			// values, counts and order - what a later parse or getter can see; the parser sets the modified marker and
			// the temporary reset marker when it reads '=' / '+=', before the value is converted, and no outcome depends on them
			auto values_only = [](std::string d) {
				for (const char *m : {" R M [", " R [", " M ["}) {
					size_t p = 0;
					std::string mm = m;
					while ((p = d.find(mm, p)) != std::string::npos)
						d.replace(p, mm.size(), " [");
				}
				return d;
			};
			if (values_only(bp->dump) != values_only(prev->dump)) {
				out.viol.push_back({"O-trace:" + bp->op, "op #" + std::to_string(i) + " (" + bp->op + ") failed its range check (ret=" + std::to_string(bp->ret) + ") but the context is not what it was before:\n  before: " +
									  prev->dump.substr(0, 500) + "\n  after:  " + bp->dump.substr(0, 500),
						    nullptr});
				break;
			}
		}

	// ---- process-wide resources: no stream may stay open, the include stack must be empty
	if (out.viol.empty())
		for (auto &c : base.conservation)
			if (c.compare(0, 11, "stream-leak") == 0 || c.compare(0, 13, "include-stack") == 0 || c.compare(0, 22, "stream-use-after-close") == 0)
				out.viol.push_back({"O-resource:" + c.substr(0, c.find_first_of(" =")), "after the history a process-wide resource is still held (" + c + "): later parses of any context depend on it", nullptr});

	// ---- O-solo: each client's outcomes equal its solo run
	int nclients = plan.contains("params") ? plan["params"].value("clients", 1) : 1;
	if (out.viol.empty() && nclients > 1) {
		for (int cl = 0; cl < nclients; cl++) {
			ExecOpts oo;
			oo.only_client = cl;
			RunResult solo = execute(plan, oo);
			add_exec_counters(out, solo);
			size_t j = 0;
			for (auto &o : base.ops) {
				if (o.client != cl || o.op == "end")
					continue;
				while (j < solo.ops.size() && solo.ops[j].index != o.index)
					j++;
				if (j >= solo.ops.size())
					break;
				if (outcome(o) != outcome(solo.ops[j])) {
					out.viol.push_back({"O-solo:" + o.op, "client " + std::to_string(cl) + " op #" + std::to_string(o.index) + " (" + o.op + ") differs from the client's solo run\n  interleaved: " +
										      outcome(o).substr(0, 600) + "\n  solo:        " + outcome(solo.ops[j]).substr(0, 600),
							    nullptr});
					break;
				}
			}
			if (!out.viol.empty())
				break;
		}
	}
	return out;
}

Property P = [] {
	Property p;
	p.id = "C08";
	p.level = "exploration";
	p.rule = "seeded histories of 1..6 prior events (28 kinds: accepted parses via buffer/stream/file+include, parses ending inside \"..\", '..', /*..*/, "
		 "trailing backslash, syntax errors in list / function arguments / nested section, error inside an included file at depth 1..3, missing include, "
		 "include depth exhausted, self-include, range failures via parser/setopt/setmulti, bad escape, unknown option, validator veto, free+re-init, deprecated options assigned, sections opened) over 1-2 clients "
		 "x 1-2 contexts, followed by 2-4 probes from a fixed set of 23 (also texts beginning with punctuation); rejected and accepted probes into a re-used context; in a third of the plans a "
		 "re-entry step: while a text (also one that includes files) is parsed, the first callback releases another context, parses into another one, or creates, fills and releases a temporary one; "
		 "in the thorough tier all histories of length 1 and 2 are enumerated first, longer ones are sampled; "
		 "distinct = distinct event-kind sequences (the history), all non-trivial";
	p.assumptions = {"the probe set and event texts are fixed by the generator; outcomes compared are return code, diagnostics (file, line, formatted message) and the canonical dump",
			 "O-trace compares values, counts and order, not the modified / reset markers (the parser sets them when it reads '=' / '+=', before the value is converted)",
			 "O-reentry: the action of the callback touches only another context; the outcome for the context being parsed is compared with the run without the action",
			 "O-scrub resets the scanner object's .data/.bss, cfg_yylval and errno between API calls; a correct library cannot observe that"};
	p.probes = {"parse_begun_outside_INITIAL", "parse_failed_inside_included_file", "two_clients_interleaved", "rejected_probe_into_reused_context", "append_into_reused_context", "range_failure_trace_checked", "callback_acted_on_another_context", "parse_after_history_vs_without"};
	p.components = {{"confuse.c", "real"}, {"lexer.l (flex 2.6.4 generated)", "real"}, {"glibc stdio/strtol/strtod", "real"}, {"allocator", "stub: accounting wrappers over the real heap"},
			{"file namespace (fopen/stat)", "stub: in-memory tree"}, {"getenv", "stub: simulated environment"}, {"user callbacks", "stub: simulator parties"}, {"exit/abort/assert", "stub: recorded and unwound"}};
	p.quick_seconds = 20;
	p.thorough_seconds = 420;
	p.generate = generate;
	p.judge = judge;
	return p;
}();
Registrar reg(&P);

} // namespace
} // namespace sim
