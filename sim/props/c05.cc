// C05 — printed configuration parses back to the same configuration.
// F-restart: at plan-chosen points of a history the context is saved (cfg_print into the simulated file system),
// the "process" is restarted (context freed, re-created from the same declarations) and the file is loaded.
#include "common.h"

namespace sim {
namespace {

json generate(uint64_t seed, uint64_t idx, int tier)
{
	(void)idx;
	Rng r(seed);
	json plan;
	SchemaGen sg;
	sg.printable_only = true;
	sg.single_title = false; // the title of a titled single section cannot be set by a load (it is created by cfg_init)
	sg.max_opts = 6;
	sg.max_depth = 2;
	sg.keystrval = r.chance(1, 3);
	sg.string_defaults_hostile = r.chance(1, 2);
	json schema = gen_schema(r, sg);
	plan["schemas"] = json::array({schema});
	int flags = r.chance(1, 3) ? F_COMMENTS : 0;
	plan["world"] = {{"fs", json::array()}, {"env", {{"HOME", "/root"}, {"X", "1"}, {"USER", "u"}}}};
	json steps = json::array();
	json init = step(0, "init", 0);
	init["flags"] = flags;
	init["keep"] = 1;
	steps.push_back(init);
	std::vector<OptRef> refs = collect_opts(r, schema["opts"]);
	ApiGen ag;
	ag.illegal = false;
	ag.bad_text = false;
	ag.hostile_strings = true;
	ag.comments = (flags & F_COMMENTS) != 0;
	int rounds = (int)r.range(1, tier ? 4 : 3);
	for (int k = 0; k < rounds; k++) {
		int n = (int)r.range(0, 5);
		for (int i = 0; i < n; i++) {
			if (r.chance(1, 3)) {
				TextGen tg;
				tg.max_items = 5;
				tg.ctx_flags = flags;
				tg.hostile = true;
				tg.comments = (flags & F_COMMENTS) ? 1 : 0;
				json p = step(0, "parse", 0);
				p["src"] = {{"kind", "buf"}, {"chunks", chunks_to_json(gen_text(r, schema["opts"], tg))}};
				steps.push_back(p);
			} else {
				json s = gen_api_step(r, 0, 0, refs, ag);
				// NULL strings have no textual form: not generated (listed as an assumption)
				if (s.contains("v") && s["v"].is_null())
					s["v"] = "";
				if (s["op"] == "addtsec")
					s["title"] = to_json_bytes(gen_string_value(r, true, 6) + "#" + std::to_string(r.below(1000)));
				if (s["op"] == "addtsec" && r.chance(1, 10)) // long titles, two of them alike for more than 255 bytes
					s["title"] = to_json_bytes(std::string(r.chance(1, 2) ? 255 : 300, 'L') + (r.chance(1, 2) ? "-a" : "-b"));
				steps.push_back(s);
			}
		}
		steps.push_back(step(0, "restart", 0));
		steps.push_back(step(0, "restart", 0)); // the reloaded state printed, loaded and printed again: fixed point
	}
	plan["steps"] = steps;
	plan["frozen"] = json::array({"schemas"});
	return plan;
}

// projection of a tree that must survive save -> load: sections, titles, list lengths, values
std::string project(const json &node, int depth = 0)
{
	std::string s;
	if (node.is_null())
		return "(null section)\n";
	for (auto &o : node["opts"]) {
		std::string ind(depth * 2, ' ');
		s += ind + o["n"].get<std::string>() + ":" + o["t"].get<std::string>();
		if (o["t"] == "sec") {
			s += " n=" + std::to_string(o["s"].size()) + "\n";
			for (auto &i : o["s"]) {
				// the title of a single (non-multi) section is fixed when the instance is created and cannot be changed by a load
				s += ind + " title=" + ((o["fl"].get<int>() & F_MULTI) ? i["title"].dump() : std::string("-")) + "\n";
				s += project(i["cfg"], depth + 1);
			}
		} else {
			s += " n=" + std::to_string(o["v"].size()) + " [";
			for (auto &v : o["v"]) {
				std::string x = v.get<std::string>();
				if (o["t"] == "float") {
					char b[400];
					snprintf(b, sizeof b, "%f", strtod(x.c_str(), nullptr)); // floats to the printed precision
					x = b;
				}
				s += x + ",";
			}
			s += "]\n";
		}
	}
	return s;
}

bool has_null_string(const json &node)
{
	if (node.is_null())
		return false;
	for (auto &o : node["opts"]) {
		if (o["t"] == "sec") {
			// a removed single section has no textual form either (it is re-created on load)
			if (!(o["fl"].get<int>() & F_MULTI) && o["s"].empty())
				return true;
			for (auto &i : o["s"])
				if (has_null_string(i["cfg"]))
					return true;
		} else
			for (auto &v : o["v"])
				if (v == "(null)")
					return true;
	}
	return false;
}

JudgeOut judge(const json &plan)
{
	JudgeOut out;
	ExecOpts eo;
	eo.want_tree = true;
	RunResult r = execute(plan, eo);
	add_exec_counters(out, r);
	death_and_stdout(r, "", out.viol);
	out.viol.erase(std::remove_if(out.viol.begin(), out.viol.end(), [](const Violation &v) { return v.cls.compare(0, 7, "stdout:") == 0 || v.cls.compare(0, 6, "stdin:") == 0; }), out.viol.end());
	if (r.died)
		return out;
	const json &steps = plan["steps"];
	json last;
	bool prev_restart = false;
	int flags = 0;
	std::string hist;
	for (auto &o : r.ops) {
		if (o.index < 0 || (size_t)o.index >= steps.size())
			continue;
		const json &st = steps[o.index];
		if (o.op == "init")
			flags = st.value("flags", 0);
		hist += o.op + ">";
		if (o.op == "restart" && !o.skipped) {
			out.k.add("fault.restart.fired");
			if (o.aux.size() < 3) {
				out.viol.push_back({"restart-incomplete", "save/load did not complete (ret=" + std::to_string(o.ret) + ")", nullptr});
				break;
			}
			const std::string &text1 = o.aux[0], &text2 = o.aux[2];
			bool null_str = has_null_string(last);
			// classify the state the restart starts from
			if (last.is_object()) {
				bool annotated = false, pristine = true;
				std::function<void(const json &)> walk = [&](const json &n) {
					if (n.is_null())
						return;
					for (auto &x : n["opts"]) {
						if (!x["c"].is_null())
							annotated = true;
						if (x["M"].get<bool>())
							pristine = false;
						if (x["t"] == "sec")
							for (auto &i : x["s"])
								walk(i["cfg"]);
					}
				};
				walk(last);
				if (annotated)
					out.k.add("probe.restart_from_annotated_state");
				if (pristine)
					out.k.add("probe.restart_from_pristine_defaults");
				if (prev_restart)
					out.k.add("probe.restart_from_reloaded_state");
			}
			if (null_str) {
				out.k.add("model.dontcare_null_string");
			} else if (o.ret != 0) {
				out.viol.push_back({"reload-rejected", "the text written by cfg_print() is rejected by cfg_parse() under the same schema (ret=" + std::to_string(o.ret) + ", " + diag_str(o) + ")\n--- printed text ---\n" + esc(text1).substr(0, 1200), nullptr});
				break;
			} else if (last.is_object() && !o.tree.is_null() && project(last) != project(o.tree)) {
				std::string a = project(last), b = project(o.tree);
				size_t p = 0;
				while (p < a.size() && p < b.size() && a[p] == b[p])
					p++;
				size_t ls = a.rfind('\n', p);
				ls = ls == std::string::npos ? 0 : ls + 1;
				out.viol.push_back({"reload-differs", "after save -> restart -> load the configuration differs\n  before: " + a.substr(ls, 200) + "\n  after:  " + b.substr(ls, 200) + "\n--- printed text ---\n" + esc(text1).substr(0, 1200), nullptr});
				break;
			} else if (!(flags & F_COMMENTS) && text2 != text1) {
				out.viol.push_back({"reprint-differs", "with annotations off, printing the re-parsed configuration does not reproduce the first text\n--- first ---\n" + esc(text1).substr(0, 600) + "\n--- second ---\n" + esc(text2).substr(0, 600), nullptr});
				break;
			} else if (prev_restart && text2 != text1) {
				out.viol.push_back({"no-fixed-point", "a further parse-and-print cycle changes the text\n--- before ---\n" + esc(text1).substr(0, 600) + "\n--- after ---\n" + esc(text2).substr(0, 600), nullptr});
				break;
			}
			prev_restart = !null_str; // the fixed-point clause needs a clean first cycle
		} else if (o.op != "dump" && o.op != "getters" && o.op != "print")
			prev_restart = false;
		if (!o.tree.is_null())
			last = o.tree;
	}
	out.distinct.push_back(fnv64(hist + std::to_string(plan_fingerprint(plan))));
	return out;
}

Property P = [] {
	Property p;
	p.id = "C05";
	p.level = "exploration";
	p.rule = "seeded schemas of printable option kinds (scalars, lists, nested / multi / titled / free-form sections; hostile string defaults) and histories of accepted parses of "
		 "rendered texts and setter / list / section / annotation calls with string values and titles over bytes 1..255 biased to quotes, backslashes, '$', '{', newlines and "
		 "comment markers; at 1-4 points of each history the context is saved, freed, re-created and loaded, twice in a row; distinct = distinct (history, schema) pairs";
	p.assumptions = {"a string option set to NULL, and a single (non-multi) section removed through the API, have no textual form: states containing one are don't-cares",
			 "compared after load: sections, titles, list lengths, values (strings bytewise, integers/booleans exactly, floats after rounding both sides through %f); reset/modified markers and annotations are not compared",
			 "the simulated environment defines HOME, X and USER while the saved text is loaded"};
	p.probes = {"restart_from_annotated_state", "restart_from_pristine_defaults", "restart_from_reloaded_state"};
	p.components = {{"confuse.c cfg_print / cfg_parse", "real"}, {"lexer", "real"}, {"file namespace", "stub: the saved text lives in the simulated tree"}, {"getenv", "stub: simulated environment"}};
	p.quick_seconds = 20;
	p.thorough_seconds = 300;
	p.generate = generate;
	p.judge = judge;
	return p;
}();
Registrar reg(&P);

} // namespace
} // namespace sim
