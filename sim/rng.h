// The only source of randomness: splitmix64 seeding + xoshiro256**.
#pragma once
#include <cstdint>
#include <string>
#include <vector>

namespace sim {

inline uint64_t splitmix64(uint64_t &x)
{
	uint64_t z = (x += 0x9e3779b97f4a7c15ULL);
	z = (z ^ (z >> 30)) * 0xbf58476d1ce4e5b9ULL;
	z = (z ^ (z >> 27)) * 0x94d049bb133111ebULL;
	return z ^ (z >> 31);
}

inline uint64_t mix(uint64_t a, uint64_t b)
{
	uint64_t x = a ^ (b * 0x9e3779b97f4a7c15ULL + 0x7f4a7c15ULL);
	splitmix64(x);
	return splitmix64(x);
}

struct Rng {
	uint64_t s[4];
	explicit Rng(uint64_t seed)
	{
		uint64_t x = seed;
		for (int i = 0; i < 4; i++)
			s[i] = splitmix64(x);
	}
	static uint64_t rotl(uint64_t x, int k) { return (x << k) | (x >> (64 - k)); }
	uint64_t next()
	{
		uint64_t r = rotl(s[1] * 5, 7) * 9, t = s[1] << 17;
		s[2] ^= s[0];
		s[3] ^= s[1];
		s[1] ^= s[2];
		s[0] ^= s[3];
		s[2] ^= t;
		s[3] = rotl(s[3], 45);
		return r;
	}
	uint64_t below(uint64_t n) { return n ? next() % n : 0; }
	long range(long lo, long hi) { return lo + (long)below((uint64_t)(hi - lo + 1)); } // inclusive
	bool chance(unsigned num, unsigned den) { return below(den) < num; }
	template <class T> const T &pick(const std::vector<T> &v) { return v[below(v.size())]; }
};

} // namespace sim
