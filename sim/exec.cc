// Executor.  See exec.h and DESIGN.md section 4.
#ifndef _GNU_SOURCE
#define _GNU_SOURCE
#endif
#include "exec.h"

#include <algorithm>
#include <cerrno>
#include <cstdarg>
#include <cstdlib>
#include <cstring>
#include <map>
#include <memory>
#include <strings.h>
#include <unistd.h>

extern "C" {
#include "confuse.h"
extern int cfg_include_stack_ptr;
int sim_lexer_start_condition(void);
int sim_lexer_buffer_depth(void);
void sim_free(void *p, const char *func, int unit);
}

namespace sim {

uint64_t fnv64(const std::string &s, uint64_t h)
{
	for (unsigned char c : s) {
		h ^= c;
		h *= 1099511628211ULL;
	}
	return h;
}

std::string esc(const std::string &s)
{
	std::string o;
	char b[8];
	for (unsigned char c : s) {
		if (c == '\\')
			o += "\\\\";
		else if (c >= 0x20 && c < 0x7f && c != '"')
			o += (char)c;
		else {
			snprintf(b, sizeof b, "\\x%02x", c);
			o += b;
		}
	}
	return o;
}

// JSON strings carry bytes 0..255 as code points U+0000..U+00FF (UTF-8 encoded).
std::string from_json_bytes(const std::string &u)
{
	std::string o;
	for (size_t i = 0; i < u.size(); i++) {
		unsigned char c = u[i];
		if (c < 0x80)
			o += (char)c;
		else if ((c & 0xE0) == 0xC0 && i + 1 < u.size()) {
			o += (char)(((c & 0x1F) << 6) | ((unsigned char)u[i + 1] & 0x3F));
			i++;
		} else
			o += '?';
	}
	return o;
}

std::string to_json_bytes(const std::string &raw)
{
	std::string o;
	for (unsigned char c : raw) {
		if (c < 0x80)
			o += (char)c;
		else {
			o += (char)(0xC0 | (c >> 6));
			o += (char)(0x80 | (c & 0x3F));
		}
	}
	return o;
}

std::string bytes_of(const json &j)
{
	return from_json_bytes(j.get<std::string>());
}

std::string source_text(const json &src)
{
	std::string t;
	// faults attached to the source, expressed relative to chunk / token so that shrinking keeps their meaning:
	//   "mut":   [chunk, token, replacement]  the token's bytes are replaced (F-tok)
	//   "cutat": [chunk, token, offset]       the source ends 'offset' bytes after the start of that token (F-cut)
	//   "cut":   n                            the source ends after n bytes
	long cut = -1;
	if (src.contains("chunks")) {
		const json &cs = src["chunks"];
		long mc = -1, mt = -1, cc = -1, ct = -1, coff = 0;
		std::string repl;
		if (src.contains("mut")) {
			mc = src["mut"][0].get<long>();
			mt = src["mut"][1].get<long>();
			repl = from_json_bytes(src["mut"][2].get<std::string>());
		}
		if (src.contains("cutat")) {
			cc = src["cutat"][0].get<long>();
			ct = src["cutat"][1].get<long>();
			coff = src["cutat"][2].get<long>();
		}
		for (long i = 0; i < (long)cs.size(); i++) {
			std::string ct_text = from_json_bytes(cs[i]["t"].get<std::string>());
			size_t base = t.size();
			bool mutated = false;
			size_t ms = 0, me = 0;
			if (i == mc && cs[i].contains("toks") && mt >= 0 && mt < (long)cs[i]["toks"].size()) {
				ms = cs[i]["toks"][mt][0].get<size_t>();
				me = cs[i]["toks"][mt][1].get<size_t>();
				if (ms <= me && me <= ct_text.size())
					mutated = true;
			}
			if (i == cc && cs[i].contains("toks") && ct >= 0 && ct < (long)cs[i]["toks"].size()) {
				long pos = (long)cs[i]["toks"][ct][0].get<size_t>() + coff;
				if (mutated && (size_t)pos > ms) // positions after the mutated token shift
					pos += (long)repl.size() - (long)(me - ms);
				if (pos < 0)
					pos = 0;
				cut = (long)base + pos;
			}
			if (mutated)
				ct_text = ct_text.substr(0, ms) + repl + ct_text.substr(me);
			t += ct_text;
		}
		if (src.contains("cutat") && cut < 0)
			cut = -2; // the fault names a token that no longer exists: keep the text whole
	} else if (src.contains("text")) {
		t = from_json_bytes(src["text"].get<std::string>());
	}
	if (src.contains("cut"))
		cut = src["cut"].get<long>();
	if (cut >= 0 && (size_t)cut < t.size())
		t.resize(cut);
	return t;
}

std::string OpResult::line() const
{
	std::string s = "#" + std::to_string(index) + " c" + std::to_string(client) + " x" + std::to_string(ctx) + " " + op;
	if (skipped)
		return s + " skipped";
	s += " ret=" + std::to_string(ret);
	if (has_sres)
		s += " sres=\"" + esc(sres) + "\"";
	if (!diags.empty()) {
		s += " diags=[";
		for (auto &d : diags)
			s += d.file + ":" + std::to_string(d.line) + "@" + d.sec + ":" + esc(d.msg) + ",";
		s += "]";
	}
	if (!cbs.empty()) {
		s += " cbs=[";
		for (auto &c : cbs)
			s += c + ";";
		s += "]";
	}
	if (!out.empty())
		s += " stdout=\"" + esc(out) + "\"";
	if (stdin_read)
		s += " stdin_read=" + std::to_string(stdin_read);
	if (fail_fired)
		s += " allocfail=" + fail_site;
	if (death != D_NONE)
		s += " DEATH=" + std::to_string((int)death) + ":" + death_info;
	for (auto &a : aux)
		s += " aux=\"" + esc(a) + "\"";
	return s;
}

std::string RunResult::log() const
{
	std::string s;
	for (auto &o : ops) {
		s += o.line();
		s += "\n";
		if (!o.dump.empty()) {
			s += o.dump;
		}
	}
	for (auto &c : conservation)
		s += "END " + c + "\n";
	return s;
}

// ------------------------------------------------------------------ executor state

struct PtrObj {
	int id;
	int released;
	char val[40]; // the token text the object was made from (ids depend on history, values do not)
};

struct Built {
	std::vector<std::pair<void *, size_t>> blocks;
	cfg_opt_t *root = nullptr;
};

struct Ctx {
	cfg_t *cfg = nullptr;
	int schema = 0;
	int flags = 0;
	bool has_path = false;
};

// storage the "application" owns for CFG_SIMPLE_* options (the library stores values through these pointers)
struct SimpleVar {
	long n = 0;
	double f = 0;
	cfg_bool_t b = cfg_false;
	char *s = nullptr;
};

struct Exec {
	std::vector<SimpleVar *> simple_vars;
	const json *plan = nullptr;
	ExecOpts opts;
	RunResult res;
	OpResult *cur = nullptr;
	std::map<int, Ctx> ctxs; // key = client*1000 + ctx
	std::vector<Built *> builts;
	std::map<void *, PtrObj> ptrs;
	int next_ptr_id = 1;
	// per-op callback behaviour
	uint64_t cb_fail_at = 0;
	std::string cb_act;      // what the cb_act_at-th callback invocation does besides answering: "free_other" | "nested_parse"
	uint64_t cb_act_at = 0;
	int cb_act_ctx = 0;      // the other context of the same client it acts on / borrows the schema of
	int cb_verdict = 1;
	int cb_errno = -1000;   // errno value a callback leaves behind (F-errno via callback party)
	bool cb_report = false; // a refusing callback calls cfg_error() on the context it was given
	std::string cb2_mode;   // "", "veto", "rewrite"
	int cb2_verdict = 1;    // what a vetoing pre-set validator returns
	long cb2_int = 0;
	double cb2_float = 0;
	uint64_t cb_budget = 0;
	std::string strbuf;     // storage for the value produced by the string parse callback
	bool any_root_created = false;
	uint64_t default_alloc_budget = 1000000;
};

static Exec *E = nullptr;

// ------------------------------------------------------------------ callbacks (S5)

static void do_cb_action(cfg_t *cfg); // defined after the schema builder

static bool cb_tick(const std::string &entry, int *verdict, cfg_t *cfg = nullptr)
{
	E->cur->cb_count++;
	E->res.cb_invocations++;
	if (E->cb_budget && E->cur->cb_count > E->cb_budget) {
		W.death = D_BUDGET_CB;
		W.death_info = "callbacks";
		siglongjmp(W.jb, 1);
	}
	bool fail = E->cb_fail_at && E->cur->cb_count == E->cb_fail_at;
	*verdict = fail ? E->cb_verdict : 0;
	if (fail)
		E->res.faults_fired_cb++;
	E->cur->cbs.push_back(entry + "->" + std::to_string(*verdict));
	if (!E->cb_act.empty() && E->cur->cb_count == E->cb_act_at)
		do_cb_action(cfg);
	if (fail && E->cb_report && cfg)
		cfg_error(cfg, "refused by callback"); // a refusing callback reports the error itself, as the API documentation asks
	if (E->cb_errno != -1000)
		errno = E->cb_errno;
	return fail;
}

static int sim_parsecb(cfg_t *cfg, cfg_opt_t *opt, const char *value, void *result)
{
	std::string v = value ? value : "(null)";
	int verdict;
	std::string entry = std::string("pcb ") + esc(opt->name) + " \"" + esc(v) + "\"";
	if (cb_tick(entry, &verdict, cfg))
		return verdict;
	uint64_t h = fnv64(v);
	switch (opt->type) {
	case CFGT_INT:
		*(long *)result = (h & 4) ? ((h & 8) ? -(long)(h >> 3) : (long)(h >> 3)) : (long)(h % 100000); // see events.h produced_repr
		break;
	case CFGT_FLOAT:
		*(double *)result = (double)(h % 1000) / 8.0;
		break;
	case CFGT_BOOL:
		*(int *)result = (int)(h & 1);
		break;
	case CFGT_STR:
		E->strbuf = "<" + v + ">";
		*(const char **)result = E->strbuf.c_str();
		break;
	case CFGT_PTR: {
		PtrObj *blk = (PtrObj *)::malloc(sizeof(PtrObj));
		blk->id = E->next_ptr_id++;
		blk->released = opt->freecb ? 0 : -1000; // without a release function nothing can be handed back
		snprintf(blk->val, sizeof blk->val, "%s", esc(v).c_str());
		E->ptrs[blk] = *blk;
		*(void **)result = blk;
		break;
	}
	default:
		break;
	}
	return 0;
}

static void sim_freecb(void *p)
{
	auto it = E->ptrs.find(p);
	if (it == E->ptrs.end()) {
		E->cur->cbs.push_back("fcb unknown");
		return;
	}
	it->second.released++;
	E->cur->cbs.push_back(std::string("fcb obj(") + it->second.val + ")");
}

static std::string value_repr(cfg_opt_t *opt, unsigned i);

static int sim_validcb(cfg_t *cfg, cfg_opt_t *opt)
{
	// read-only re-entry: what the validator sees
	unsigned n = cfg_opt_size(opt);
	std::string entry = std::string("vcb ") + esc(opt->name) + " n=" + std::to_string(n);
	if (n)
		entry += " last=" + value_repr(opt, n - 1);
	else if (opt->simple_value.ptr && opt->type != CFGT_SEC)
		entry += " last=" + value_repr(opt, 0); // bound to an application variable: no value list, the getter reads the variable
	{
		// the context handed to a validator is the one that holds the option
		bool holds = false;
		for (unsigned k = 0; cfg && k < cfg_num(cfg); k++)
			if (cfg_getnopt(cfg, k) == opt)
				holds = true;
		if (!holds)
			entry += " MISMATCH(the context handed to the validator does not hold the option)";
	}
	int verdict;
	cb_tick(entry, &verdict, cfg);
	return verdict;
}

static int sim_validcb2(cfg_t *cfg, cfg_opt_t *opt, void *value)
{
	(void)cfg;
	std::string entry = std::string("vcb2 ") + esc(opt->name);
	switch (opt->type) {
	case CFGT_INT:
		entry += " " + std::to_string(*(long *)value);
		break;
	case CFGT_FLOAT: {
		char b[64];
		snprintf(b, sizeof b, " %a", *(double *)value);
		entry += b;
		break;
	}
	case CFGT_STR:
		entry += std::string(" \"") + (value ? esc((const char *)value) : "(null)") + "\"";
		break;
	default:
		break;
	}
	int verdict = 0;
	if (E->cb2_mode == "veto")
		verdict = E->cb2_verdict; // any non-zero result vetoes
	else if (E->cb2_mode == "rewrite") {
		if (opt->type == CFGT_INT)
			*(long *)value = E->cb2_int;
		else if (opt->type == CFGT_FLOAT)
			*(double *)value = E->cb2_float;
	}
	E->cur->cbs.push_back(entry + "->" + std::to_string(verdict));
	return verdict;
}

static int sim_func(cfg_t *cfg, cfg_opt_t *opt, int argc, const char **argv)
{
	std::string entry = std::string("fn ") + esc(opt->name) + " argc=" + std::to_string(argc) + " [";
	for (int i = 0; i < argc; i++)
		entry += std::string("\"") + (argv[i] ? esc(argv[i]) : "(null)") + "\",";
	entry += "]";
	int verdict;
	cb_tick(entry, &verdict, cfg);
	return verdict;
}

static void sim_errfunc(cfg_t *cfg, const char *fmt, va_list ap)
{
	Diag d;
	// the message is formatted here, under ASan: a dangling argument is a defect of the caller
	char buf[512];
	va_list ap2;
	va_copy(ap2, ap);
	vsnprintf(buf, sizeof buf, fmt ? fmt : "(null format)", ap2);
	va_end(ap2);
	d.msg = buf;
	d.file = cfg && cfg->filename ? cfg->filename : "(null)";
	d.line = cfg ? cfg->line : -1;
	d.sec = cfg && cfg->name ? cfg->name : "?";
	if (E && E->cur)
		E->cur->diags.push_back(d);
}

// a second error function: what it receives is marked, so that a diagnostic delivered to a function the
// application has replaced meanwhile shows
static void sim_errfunc2(cfg_t *cfg, const char *fmt, va_list ap)
{
	size_t before = (E && E->cur) ? E->cur->diags.size() : 0;
	sim_errfunc(cfg, fmt, ap);
	if (E && E->cur && E->cur->diags.size() > before)
		E->cur->diags.back().msg = "[fn2] " + E->cur->diags.back().msg;
}

// print filter party: hides about half of the options, chosen by name
static int sim_printfilter(cfg_t *cfg, cfg_opt_t *opt)
{
	(void)cfg;
	return (int)(fnv64(opt->name) & 1);
}

static void sim_printcb(cfg_opt_t *opt, unsigned int index, FILE *fp)
{
	fprintf(fp, "<pf:%s:%u>", opt->name, index);
}

// ------------------------------------------------------------------ schema building

static char *dupstr(const std::string &s, Built &b)
{
	char *p = (char *)::malloc(s.size() + 1);
	memcpy(p, s.c_str(), s.size() + 1);
	b.blocks.push_back({p, s.size() + 1});
	return p;
}

static cfg_type_t type_of(const std::string &t)
{
	if (t == "int") return CFGT_INT;
	if (t == "float") return CFGT_FLOAT;
	if (t == "str") return CFGT_STR;
	if (t == "bool") return CFGT_BOOL;
	if (t == "sec") return CFGT_SEC;
	if (t == "func") return CFGT_FUNC;
	if (t == "ptr") return CFGT_PTR;
	return CFGT_NONE;
}

static cfg_opt_t *build_opts(const json &opts, Built &b)
{
	size_t n = opts.size();
	cfg_opt_t *arr = (cfg_opt_t *)::calloc(n + 1, sizeof(cfg_opt_t));
	b.blocks.push_back({arr, (n + 1) * sizeof(cfg_opt_t)});
	for (size_t i = 0; i < n; i++) {
		const json &o = opts[i];
		cfg_opt_t &c = arr[i];
		c.name = dupstr(bytes_of(o["n"]), b);
		c.type = type_of(o["t"].get<std::string>());
		c.flags = o.value("fl", 0);
		if (o.contains("d") && !o["d"].is_null()) {
			switch (c.type) {
			case CFGT_INT: c.def.number = o["d"].get<long>(); break;
			case CFGT_FLOAT: c.def.fpnumber = o["d"].get<double>(); break;
			case CFGT_BOOL: c.def.boolean = o["d"].get<bool>() ? cfg_true : cfg_false; break;
			case CFGT_STR: c.def.string = dupstr(bytes_of(o["d"]), b); break;
			default: break;
			}
		}
		if (o.contains("dp") && !o["dp"].is_null())
			c.def.parsed = dupstr(bytes_of(o["dp"]), b);
		if (o.value("simple", 0) && !(c.flags & CFGF_LIST) && (c.type == CFGT_INT || c.type == CFGT_FLOAT || c.type == CFGT_BOOL || c.type == CFGT_STR)) {
			SimpleVar *sv = new SimpleVar();
			E->simple_vars.push_back(sv);
			sv->n = o.contains("d") && o["d"].is_number() ? o["d"].get<long>() : 0;
			switch (c.type) {
			case CFGT_INT: c.simple_value.number = &sv->n; break;
			case CFGT_FLOAT: c.simple_value.fpnumber = &sv->f; break;
			case CFGT_BOOL: c.simple_value.boolean = &sv->b; break;
			default: c.simple_value.string = &sv->s; break;
			}
		}
		if (o.contains("cm") && !o["cm"].is_null())
			c.comment = dupstr(bytes_of(o["cm"]), b); // an annotation given in the declaration itself
		if (o.contains("sub"))
			c.subopts = build_opts(o["sub"], b);
		if (o.value("pcb", 0))
			c.parsecb = sim_parsecb;
		if (o.value("vcb", 0))
			c.validcb = sim_validcb;
		if (o.value("vcb2", 0))
			c.validcb2 = sim_validcb2;
		if (o.value("fcb", 0))
			c.freecb = sim_freecb;
		if (o.value("pf", 0))
			c.pf = sim_printcb;
		if (o.contains("fn")) {
			std::string fn = o["fn"].get<std::string>();
			c.func = fn == "include" ? cfg_include : sim_func;
		}
	}
	arr[n].type = CFGT_NONE;
	return arr;
}

static void release_built(Built *b, bool poison)
{
	for (auto &blk : b->blocks) {
		if (poison)
			memset(blk.first, 0xDD, blk.second);
		::free(blk.first);
	}
	b->blocks.clear();
	b->root = nullptr;
}

// ------------------------------------------------------------------ observation

static std::string value_repr(cfg_opt_t *opt, unsigned i)
{
	char b[80];
	switch (opt->type) {
	case CFGT_INT:
		return std::to_string(cfg_opt_getnint(opt, i));
	case CFGT_FLOAT:
		snprintf(b, sizeof b, "%a", cfg_opt_getnfloat(opt, i));
		return b;
	case CFGT_BOOL:
		return cfg_opt_getnbool(opt, i) ? "true" : "false";
	case CFGT_STR: {
		const char *s = cfg_opt_getnstr(opt, i);
		return s ? "\"" + esc(s) + "\"" : "(null)";
	}
	case CFGT_PTR: {
		void *p = cfg_opt_getnptr(opt, i);
		if (!p)
			return "ptr(null)";
		auto it = E->ptrs.find(p);
		if (it == E->ptrs.end())
			return "ptr(?)";
		return std::string("obj(") + it->second.val + ")" + (it->second.released > 0 ? "!released" : "");
	}
	case CFGT_SEC: {
		cfg_t *sec = cfg_opt_getnsec(opt, i);
		const char *t = sec ? cfg_title(sec) : nullptr;
		return t ? "sec\"" + esc(t) + "\"" : "sec";
	}
	default:
		return "-";
	}
}

static void dump_cfg(cfg_t *cfg, std::string &out, int depth)
{
	if (depth > 40) {
		out += "<too deep>\n";
		return;
	}
	std::string ind(depth * 2, ' ');
	for (unsigned i = 0;; i++) {
		cfg_opt_t *o = cfg_getnopt(cfg, i);
		if (!o)
			break;
		static const char *tn[] = {"none", "int", "float", "str", "bool", "sec", "func", "ptr", "comment"};
		out += ind + esc(o->name) + ":" + tn[o->type <= CFGT_COMMENT ? o->type : 0];
		unsigned n = cfg_opt_size(o);
		out += " n=" + std::to_string(n);
		if (o->flags & CFGF_RESET)
			out += " R";
		if (o->flags & CFGF_MODIFIED)
			out += " M";
		const char *cm = cfg_opt_getcomment(o);
		if (cm)
			out += " #\"" + esc(cm) + "\"";
		if (o->simple_value.ptr && o->type != CFGT_SEC)
			out += " simple=" + value_repr(o, 0); // the value lives in the application's variable
		if (o->type == CFGT_SEC) {
			out += "\n";
			for (unsigned k = 0; k < n; k++) {
				cfg_t *sec = cfg_opt_getnsec(o, k);
				out += ind + " [" + std::to_string(k) + "]";
				if (!sec) {
					out += " (null)\n";
					continue;
				}
				const char *t = cfg_title(sec);
				if (t)
					out += " title=\"" + esc(t) + "\"";
				out += " {\n";
				dump_cfg(sec, out, depth + 1);
				out += ind + " }\n";
			}
		} else {
			out += " [";
			for (unsigned k = 0; k < n; k++) {
				if (k)
					out += ",";
				out += value_repr(o, k);
			}
			out += "]\n";
		}
	}
}

static json tree_cfg(cfg_t *cfg, int depth)
{
	json node;
	node["opts"] = json::array();
	if (depth > 40)
		return node;
	for (unsigned i = 0;; i++) {
		cfg_opt_t *o = cfg_getnopt(cfg, i);
		if (!o)
			break;
		json j;
		static const char *tn[] = {"none", "int", "float", "str", "bool", "sec", "func", "ptr", "comment"};
		j["n"] = to_json_bytes(o->name);
		j["t"] = tn[o->type <= CFGT_COMMENT ? o->type : 0];
		j["fl"] = o->flags & (CFGF_MULTI | CFGF_LIST | CFGF_TITLE | CFGF_NODEFAULT | CFGF_NO_TITLE_DUPES | CFGF_KEYSTRVAL | CFGF_NOCASE);
		j["R"] = (o->flags & CFGF_RESET) != 0;
		j["M"] = (o->flags & CFGF_MODIFIED) != 0;
		const char *cm = cfg_opt_getcomment(o);
		if (cm)
			j["c"] = to_json_bytes(cm);
		else
			j["c"] = nullptr;
		unsigned n = cfg_opt_size(o);
		if (o->simple_value.ptr && o->type != CFGT_SEC)
			j["sv"] = value_repr(o, 0); // bound to an application variable: the value lives there
		if (o->type == CFGT_SEC) {
			json secs = json::array();
			for (unsigned k = 0; k < n; k++) {
				cfg_t *sec = cfg_opt_getnsec(o, k);
				json sj;
				const char *t = sec ? cfg_title(sec) : nullptr;
				if (t)
					sj["title"] = to_json_bytes(t);
				else
					sj["title"] = nullptr;
				sj["cfg"] = sec ? tree_cfg(sec, depth + 1) : json(nullptr);
				secs.push_back(sj);
			}
			j["s"] = secs;
		} else {
			json vals = json::array();
			for (unsigned k = 0; k < n; k++)
				vals.push_back(value_repr(o, k));
			j["v"] = vals;
		}
		node["opts"].push_back(j);
	}
	return node;
}

// ------------------------------------------------------------------ navigation

static cfg_opt_t *find_leaf(cfg_t *cfg, const std::string &name)
{
	for (unsigned i = 0;; i++) {
		cfg_opt_t *o = cfg_getnopt(cfg, i);
		if (!o)
			return nullptr;
		if (cfg->flags & CFGF_NOCASE) {
			if (strcasecmp(o->name, name.c_str()) == 0)
				return o;
		} else if (name == o->name)
			return o;
	}
}

static cfg_t *navigate(cfg_t *root, const json &op)
{
	cfg_t *cur = root;
	if (!op.contains("at"))
		return cur;
	for (auto &step : op["at"]) {
		cfg_opt_t *o = find_leaf(cur, bytes_of(step[0]));
		if (!o || o->type != CFGT_SEC)
			return nullptr;
		cur = cfg_opt_getnsec(o, step[1].get<unsigned>());
		if (!cur)
			return nullptr;
	}
	return cur;
}

// ------------------------------------------------------------------ API call bracket

static void pre_call(const json &op)
{
	if (E->opts.scrub) {
		image_restore_scanner();
		W.free_unit_blocks(2);
		errno = 0;
	}
	if (E->opts.errno_override != -1000)
		errno = E->opts.errno_override;
	if (op.contains("errno"))
		errno = op["errno"].get<int>();
	E->res.api_calls++;
}

static void post_call()
{
	OpResult &r = *E->cur;
	std::string o = W.poll_stdout();
	r.out += o;
	r.stdin_read += W.poll_stdin();
	if (W.fail_fired) {
		r.fail_fired = true;
		r.fail_site = W.fail_site;
	}
	r.u1_requests = W.op_requests_u1;
	if (W.death != D_NONE) {
		r.death = W.death;
		r.death_info = W.death_info;
		E->res.died = true;
	}
}

#define LIBCALL(op, ...)                          \
	do {                                          \
		pre_call(op);                             \
		W.in_lib = true;                          \
		if (sigsetjmp(W.jb, 0) == 0) {            \
			__VA_ARGS__;                          \
		}                                         \
		W.in_lib = false;                         \
		post_call();                              \
	} while (0)

static const json EMPTY = json::object();

static cfg_t *do_init(int client, int schema, int flags, const json &op)
{
	const json &plan = *E->plan;
	Built *b = new Built();
	E->builts.push_back(b);
	b->root = build_opts(plan["schemas"][schema]["opts"], *b);
	cfg_t *cfg = nullptr;
	cfg_t *volatile out = nullptr;
	// the declarations are the caller's: the library reads them, it does not write to them
	std::vector<std::string> before;
	for (auto &blk : b->blocks)
		before.emplace_back((const char *)blk.first, blk.second);
	LIBCALL(op, out = cfg_init(b->root, flags));
	cfg = out;
	if (!E->res.died)
		for (size_t k = 0; k < b->blocks.size(); k++)
			if (memcmp(before[k].data(), b->blocks[k].first, b->blocks[k].second) != 0) {
				E->res.conservation.push_back("declarations-modified x1");
				break;
			}
	bool poison = plan.contains("knobs") ? plan["knobs"].value("poison", true) : true;
	release_built(b, poison);
	if (cfg && !E->res.died) {
		E->any_root_created = true;
		// "noerrfn": the application installs no error function for this context (diagnostics go to stderr, unseen)
		if (!op.value("noerrfn", 0))
			LIBCALL(EMPTY, cfg_set_error_function(cfg, sim_errfunc));
	}
	(void)client;
	return cfg;
}

// Re-entry from a callback (a party of its own: the application code inside the callback): while a parse of one
// context is under way the callback releases ANOTHER context, or creates, fills and releases a temporary one.
static void do_cb_action(cfg_t *cbcfg)
{
	OpResult &r = *E->cur;
	if (r.op != "parse")
		return;
	if (E->cb_act == "set_self") {
		// the callback sets another option of the context being parsed (an option the text assigns later on)
		if (!cbcfg)
			return;
		int rc = cfg_setint(cbcfg, "a", 77);
		r.cbs.push_back("act set_self ret=" + std::to_string(rc));
		return;
	}
	int key = r.client * 1000 + E->cb_act_ctx;
	if (E->cb_act == "free_other") {
		auto it = E->ctxs.find(key);
		if (it == E->ctxs.end() || !it->second.cfg || E->cb_act_ctx == r.ctx)
			return;
		cfg_free(it->second.cfg);
		it->second.cfg = nullptr;
		r.cbs.push_back("act free_other");
	} else if (E->cb_act == "parse_other") {
		auto it = E->ctxs.find(key);
		if (it == E->ctxs.end() || !it->second.cfg || E->cb_act_ctx == r.ctx)
			return;
		size_t nd = r.diags.size();
		int rc = cfg_parse_buf(it->second.cfg, "a = 3\n");
		r.diags.resize(nd);
		r.cbs.push_back("act parse_other ret=" + std::to_string(rc));
	} else if (E->cb_act == "nested_parse" || E->cb_act == "nested_parse_refused") {
		const json &plan = *E->plan;
		int schema = 0;
		auto self = E->ctxs.find(r.client * 1000 + r.ctx);
		if (self != E->ctxs.end())
			schema = self->second.schema;
		Built *b = new Built();
		E->builts.push_back(b);
		b->root = build_opts(plan["schemas"][schema]["opts"], *b);
		cfg_t *t = cfg_init(b->root, 0);
		release_built(b, plan.contains("knobs") ? plan["knobs"].value("poison", true) : true);
		if (!t)
			return;
		cfg_set_error_function(t, sim_errfunc);
		size_t nd = r.diags.size();
		// where the schema has the simulator's function option, the nested text calls it: the nested call must receive its
		// own arguments, whatever the outer parse was collecting when the callback ran
		cfg_opt_t *fo = nullptr;
		for (unsigned k = 0; k < cfg_num(t); k++) {
			cfg_opt_t *e = cfg_getnopt(t, k);
			if (e && e->type == CFGT_FUNC && e->func == sim_func && strcmp(e->name, "fn") == 0)
				fo = e;
		}
		size_t ncb = r.cbs.size();
		int rc = cfg_parse_buf(t, E->cb_act != "nested_parse" ? "= = nested text that is refused\n" : fo ? "fn(\"n\")\na = 3\n" : "a = 3\n");
		r.diags.resize(nd); // the temporary context's diagnostics are its own
		cfg_free(t);
		std::string verdict = "act " + E->cb_act + " ret=" + std::to_string(rc);
		if (fo && E->cb_act == "nested_parse") {
			int seen = 0;
			for (size_t k = ncb; k < r.cbs.size(); k++)
				if (r.cbs[k].compare(0, 6, "fn fn ") == 0) {
					seen++;
					if (r.cbs[k].rfind("fn fn argc=1 [\"n\",]", 0) != 0)
						verdict += " MISMATCH(nested function call received " + r.cbs[k] + ")";
				}
			if (seen != 1)
				verdict += " MISMATCH(nested function called " + std::to_string(seen) + " times)";
		}
		r.cbs.push_back(verdict);
	}
}

static void apply_world(const json &plan)
{
	if (!plan.contains("world"))
		return;
	const json &w = plan["world"];
	if (w.contains("fs"))
		for (auto &f : w["fs"]) {
			FsNode n;
			std::string k = f.value("kind", std::string("file"));
			n.kind = k == "dir" ? FS_DIR : k == "noperm" ? FS_NOPERM : k == "link" ? FS_LINK : FS_FILE;
			if (k == "link")
				n.bytes = f["to"].get<std::string>();
			else if (f.contains("chunks") || f.contains("text"))
				n.bytes = source_text(f);
			W.fs[f["path"].get<std::string>()] = n;
		}
	if (w.contains("passwd"))
		for (auto &p : w["passwd"])
			W.passwd.push_back(PwEnt{p["name"].get<std::string>(), p["uid"].get<unsigned>(), p["dir"].get<std::string>()});
	W.euid = w.value("euid", 0u);
	if (w.contains("env"))
		for (auto it = w["env"].begin(); it != w["env"].end(); ++it)
			W.env[it.key()] = bytes_of(it.value());
}

static std::string print_ctx(cfg_t *cfg, const json &op)
{
	char *buf = nullptr;
	size_t len = 0;
	FILE *ms = open_memstream(&buf, &len);
	volatile int rc = 0;
	LIBCALL(op, rc = cfg_print(cfg, ms));
	if (op.value("op", std::string()) == "print")
		E->cur->ret = rc;
	fclose(ms);
	std::string s(buf ? buf : "", buf ? len : 0);
	::free(buf);
	return s;
}

static void variadic_list(cfg_t *cfg, cfg_opt_t *o, const std::string &name, const json &vals, bool add, const json &op)
{
	// cfg_setlist / cfg_addlist are variadic: up to 4 values per call
	OpResult &r = *E->cur;
	unsigned n = vals.size() > 4 ? 4 : (unsigned)vals.size();
	auto fn = add ? cfg_addlist : cfg_setlist;
	const char *nm = name.c_str();
	cfg_type_t t = o ? o->type : CFGT_INT;
	if (t == CFGT_INT) {
		int v[4] = {0, 0, 0, 0};
		for (unsigned i = 0; i < n; i++)
			v[i] = vals[i].is_number() ? (int)vals[i].get<long>() : 0;
		LIBCALL(op, r.ret = n == 0 ? fn(cfg, nm, 0) : n == 1 ? fn(cfg, nm, 1, v[0]) : n == 2 ? fn(cfg, nm, 2, v[0], v[1])
						   : n == 3 ? fn(cfg, nm, 3, v[0], v[1], v[2]) : fn(cfg, nm, 4, v[0], v[1], v[2], v[3]));
	} else if (t == CFGT_FLOAT) {
		double v[4] = {0, 0, 0, 0};
		for (unsigned i = 0; i < n; i++)
			v[i] = vals[i].is_number() ? vals[i].get<double>() : 0.0;
		LIBCALL(op, r.ret = n == 0 ? fn(cfg, nm, 0) : n == 1 ? fn(cfg, nm, 1, v[0]) : n == 2 ? fn(cfg, nm, 2, v[0], v[1])
						   : n == 3 ? fn(cfg, nm, 3, v[0], v[1], v[2]) : fn(cfg, nm, 4, v[0], v[1], v[2], v[3]));
	} else if (t == CFGT_BOOL) {
		cfg_bool_t v[4] = {cfg_false, cfg_false, cfg_false, cfg_false};
		for (unsigned i = 0; i < n; i++)
			v[i] = (vals[i].is_boolean() ? vals[i].get<bool>() : (vals[i].is_number() && vals[i].get<long>())) ? cfg_true : cfg_false;
		LIBCALL(op, r.ret = n == 0 ? fn(cfg, nm, 0) : n == 1 ? fn(cfg, nm, 1, v[0]) : n == 2 ? fn(cfg, nm, 2, v[0], v[1])
						   : n == 3 ? fn(cfg, nm, 3, v[0], v[1], v[2]) : fn(cfg, nm, 4, v[0], v[1], v[2], v[3]));
	} else {
		std::string sv[4];
		const char *v[4] = {"", "", "", ""};
		for (unsigned i = 0; i < n; i++) {
			sv[i] = vals[i].is_string() ? bytes_of(vals[i]) : vals[i].dump();
			v[i] = sv[i].c_str();
		}
		LIBCALL(op, r.ret = n == 0 ? fn(cfg, nm, 0) : n == 1 ? fn(cfg, nm, 1, v[0]) : n == 2 ? fn(cfg, nm, 2, v[0], v[1])
						   : n == 3 ? fn(cfg, nm, 3, v[0], v[1], v[2]) : fn(cfg, nm, 4, v[0], v[1], v[2], v[3]));
	}
}

static void run_op(int client, const json &op, OpResult &r)
{
	const std::string kind = op["op"].get<std::string>();
	r.op = kind;
	r.client = client;
	int cx = op.value("c", 0);
	r.ctx = cx;
	int key = op.value("owner", client) * 1000 + cx; // "owner": the step works on another client's context (sibling instances)

	// per-op fault and callback configuration
	W.op_alloc_budget = E->default_alloc_budget;
	W.fail_at = op.value("falloc", (uint64_t)0);
	E->cb_fail_at = op.value("fcb", (uint64_t)0);
	E->cb_act = op.value("cbact", std::string());
	E->cb_act_at = op.value("cbact_at", (uint64_t)1);
	E->cb_act_ctx = op.value("cbact_c", 0);
	E->cb_verdict = op.value("fcbv", 1);
	E->cb_errno = op.value("cberrno", -1000);
	E->cb_report = op.value("cberr", 0) != 0;
	E->cb2_mode = op.value("cb2", std::string());
	E->cb2_verdict = op.value("cb2v", 1);
	E->cb2_int = op.value("cb2i", 0L);
	E->cb2_float = op.value("cb2f", 0.0);
	r.start_cond_before = sim_lexer_start_condition();
	r.inc_depth_before = cfg_include_stack_ptr;

	// ---- ops that need no context
	if (kind == "env") {
		if (op["v"].is_null())
			W.env.erase(op["k"].get<std::string>());
		else
			W.env[op["k"].get<std::string>()] = bytes_of(op["v"]);
		return;
	}
	if (kind == "fsedit") {
		std::string path = op["path"].get<std::string>();
		std::string k = op.value("kind", std::string("file"));
		if (k == "absent")
			W.fs.erase(path);
		else {
			FsNode n;
			n.kind = k == "dir" ? FS_DIR : k == "noperm" ? FS_NOPERM : FS_FILE;
			n.bytes = source_text(op);
			W.fs[path] = n;
		}
		return;
	}
	if (kind == "tilde") {
		std::string name = bytes_of(op["name"]);
		char *volatile p = nullptr;
		LIBCALL(op, p = cfg_tilde_expand(name.c_str()));
		r.ret = p ? 1 : 0;
		if (p && !E->res.died) {
			r.has_sres = true;
			r.sres = p;
			r.aux.push_back(W.live.count(p) ? "fresh" : "notfresh");
			sim_free(p, "harness", 0);
		}
		return;
	}
	if (kind == "init") {
		Ctx &c = E->ctxs[key];
		if (c.cfg) {
			r.skipped = true;
			return;
		}
		c.schema = op.value("schema", 0);
		c.flags = op.value("flags", 0);
		c.cfg = do_init(client, c.schema, c.flags, op);
		r.ret = c.cfg ? 1 : 0;
		if (c.cfg && E->opts.dump_each && !E->res.died) {
			dump_cfg(c.cfg, r.dump, 0);
			if (E->opts.want_tree)
				r.tree = tree_cfg(c.cfg, 0);
		}
		return;
	}

	// ---- ops on a context
	auto it = E->ctxs.find(key);
	if (it == E->ctxs.end() || !it->second.cfg) {
		r.skipped = true;
		return;
	}
	Ctx &c = it->second;
	cfg_t *root = c.cfg;

	if (kind == "free") {
		LIBCALL(op, r.ret = cfg_free(root));
		c.cfg = nullptr;
		return;
	}

	cfg_t *cfg = navigate(root, op);
	if (!cfg) {
		r.skipped = true;
		return;
	}
	std::string name = op.contains("name") ? bytes_of(op["name"]) : std::string();
	unsigned idx = op.value("idx", 0u);
	bool want_dump = E->opts.dump_each;
	bool alt = op.value("alt", 0) != 0;

	if (kind == "parse") {
		const json &src = op["src"];
		std::string sk = src.value("kind", std::string("buf"));
		E->res.start_conds.push_back(r.start_cond_before);
		W.tty = E->opts.tty_override >= 0 ? E->opts.tty_override != 0 : src.value("tty", (*E->plan).contains("knobs") ? (*E->plan)["knobs"].value("tty", false) : false);
		{
			// step budget scales with the input (DESIGN 4.3): a loop that keeps allocating trips it
			uint64_t bytes = 0;
			for (auto &kv : W.fs)
				bytes += kv.second.bytes.size();
			if (sk != "file")
				bytes += source_text(src).size();
			const json &kn = (*E->plan).contains("knobs") ? (*E->plan)["knobs"] : EMPTY;
			if (!kn.contains("alloc_budget"))
				W.op_alloc_budget = 100000 + 200 * bytes;
		}
		if (sk == "buf") {
			std::string text = source_text(src);
			// cfg_parse_buf takes a C string: an embedded NUL ends the text
			LIBCALL(op, r.ret = cfg_parse_buf(cfg, text.c_str()));
		} else if (sk == "fp") {
			std::string text = source_text(src);
			SimStream *s = W.new_stream(text, "fp", false);
			s->chunk = src.value("chunk", (size_t)0);
			LIBCALL(op, r.ret = cfg_parse_fp(cfg, s->fp));
			if (!E->res.died && s->fp) {
				FILE *fp = s->fp;
				fclose(fp);
			}
		} else { // file
			std::string path = src["path"].get<std::string>();
			LIBCALL(op, r.ret = cfg_parse(cfg, path.c_str()));
		}
	} else if (kind == "setint") {
		// "alt": the equivalent entry point without an index (cfg_setint is cfg_setnint(..., 0)), where there is one
		if (alt && idx == 0)
			LIBCALL(op, r.ret = cfg_setint(cfg, name.c_str(), op["v"].get<long>()));
		else
			LIBCALL(op, r.ret = cfg_setnint(cfg, name.c_str(), op["v"].get<long>(), idx));
	} else if (kind == "setfloat") {
		if (alt && idx == 0)
			LIBCALL(op, r.ret = cfg_setfloat(cfg, name.c_str(), op["v"].get<double>()));
		else
			LIBCALL(op, r.ret = cfg_setnfloat(cfg, name.c_str(), op["v"].get<double>(), idx));
	} else if (kind == "setbool") {
		if (alt && idx == 0)
			LIBCALL(op, r.ret = cfg_setbool(cfg, name.c_str(), op["v"].get<bool>() ? cfg_true : cfg_false));
		else
			LIBCALL(op, r.ret = cfg_setnbool(cfg, name.c_str(), op["v"].get<bool>() ? cfg_true : cfg_false, idx));
	} else if (kind == "setstr" && alt && idx == 0 && !op.value("self", false)) {
		std::string v = op["v"].is_null() ? std::string() : bytes_of(op["v"]);
		const char *vp = op["v"].is_null() ? nullptr : v.c_str();
		LIBCALL(op, r.ret = cfg_setstr(cfg, name.c_str(), vp));
	} else if (kind == "setstr") {
		std::string v = op["v"].is_null() ? std::string() : bytes_of(op["v"]);
		const char *vp = op["v"].is_null() ? nullptr : v.c_str();
		if (op.value("self", false)) {
			// the application hands the library its own current value back (cfg_setstr(c, n, cfg_getstr(c, n)))
			const char *volatile cur = nullptr;
			LIBCALL(EMPTY, cur = cfg_getnstr(cfg, name.c_str(), idx));
			vp = cur;
		}
		LIBCALL(op, r.ret = cfg_setnstr(cfg, name.c_str(), vp, idx));
	} else if (kind == "osetint" || kind == "osetfloat" || kind == "osetbool" || kind == "osetstr") {
		cfg_opt_t *o = find_leaf(cfg, name);
		if (kind == "osetint")
			LIBCALL(op, r.ret = cfg_opt_setnint(o, op["v"].get<long>(), idx));
		else if (kind == "osetfloat")
			LIBCALL(op, r.ret = cfg_opt_setnfloat(o, op["v"].get<double>(), idx));
		else if (kind == "osetbool")
			LIBCALL(op, r.ret = cfg_opt_setnbool(o, op["v"].get<bool>() ? cfg_true : cfg_false, idx));
		else {
			std::string v = op["v"].is_null() ? std::string() : bytes_of(op["v"]);
			const char *vp = op["v"].is_null() ? nullptr : v.c_str();
			LIBCALL(op, r.ret = cfg_opt_setnstr(o, vp, idx));
		}
	} else if (kind == "setopt") {
		cfg_opt_t *o = find_leaf(cfg, name);
		std::string v = op["v"].is_null() ? std::string() : bytes_of(op["v"]);
		const char *vp = op["v"].is_null() ? nullptr : v.c_str();
		cfg_value_t *volatile val = nullptr;
		LIBCALL(op, val = cfg_setopt(cfg, o, vp));
		r.ret = val ? 0 : -1;
	} else if (kind == "setmulti") {
		std::vector<std::string> vs;
		for (auto &v : op["vals"])
			vs.push_back(bytes_of(v));
		std::vector<char *> ps;
		for (auto &s : vs)
			ps.push_back((char *)s.c_str());
		ps.push_back(nullptr);
		if (op.value("byopt", false)) {
			cfg_opt_t *o = find_leaf(cfg, name);
			LIBCALL(op, r.ret = cfg_opt_setmulti(cfg, o, (unsigned)vs.size(), ps.data()));
		} else
			LIBCALL(op, r.ret = cfg_setmulti(cfg, name.c_str(), (unsigned)vs.size(), ps.data()));
	} else if (kind == "setlist" || kind == "addlist") {
		cfg_opt_t *o = find_leaf(cfg, name);
		variadic_list(cfg, o, name, op["vals"], kind == "addlist", op);
	} else if (kind == "addtsec") {
		std::string title = bytes_of(op["title"]);
		cfg_t *volatile s = nullptr;
		LIBCALL(op, s = cfg_addtsec(cfg, name.c_str(), title.c_str()));
		r.ret = s ? 0 : -1;
	} else if (kind == "rmnsec") {
		// "alt": through the option pointer, which is what the by-name call does after looking the name up
		if (alt)
			LIBCALL(op, r.ret = cfg_opt_rmnsec(cfg_getopt(cfg, name.c_str()), idx));
		else
			LIBCALL(op, r.ret = cfg_rmnsec(cfg, name.c_str(), idx));
	} else if (kind == "rmtsec") {
		std::string title = bytes_of(op["title"]);
		if (alt)
			LIBCALL(op, r.ret = cfg_opt_rmtsec(cfg_getopt(cfg, name.c_str()), title.c_str()));
		else
			LIBCALL(op, r.ret = cfg_rmtsec(cfg, name.c_str(), title.c_str()));
	} else if (kind == "rmsec") {
		LIBCALL(op, r.ret = cfg_rmsec(cfg, name.c_str()));
	} else if (kind == "setcomment") {
		std::string t = bytes_of(op["text"]);
		if (alt)
			LIBCALL(op, r.ret = cfg_opt_setcomment(cfg_getopt(cfg, name.c_str()), (char *)t.c_str()));
		else
			LIBCALL(op, r.ret = cfg_setcomment(cfg, name.c_str(), (char *)t.c_str()));
	} else if (kind == "seterrfn") {
		// the application replaces the error function of the context ("fn": 1 or 2)
		LIBCALL(op, cfg_set_error_function(cfg, op.value("fn", 2) == 2 ? sim_errfunc2 : sim_errfunc));
		r.ret = 0;
	} else if (kind == "addpath") {
		std::string d = bytes_of(op["dir"]);
		LIBCALL(op, r.ret = cfg_add_searchpath(cfg, d.c_str()));
		if (r.ret == 0)
			c.has_path = true;
	} else if (kind == "searchpath") {
		char *volatile p = nullptr;
		LIBCALL(op, p = cfg_searchpath(cfg->path, name.c_str()));
		r.ret = p ? 1 : 0;
		if (p && !E->res.died) {
			r.has_sres = true;
			r.sres = p;
			r.aux.push_back(W.live.count(p) ? "fresh" : "notfresh");
			sim_free(p, "harness", 0);
		}
		want_dump = false;
	} else if (kind == "setvalidate") {
		bool on = op.value("on", true);
		LIBCALL(op, cfg_set_validate_func(cfg, name.c_str(), on ? sim_validcb : nullptr));
	} else if (kind == "setvalidate2") {
		bool on = op.value("on", true);
		LIBCALL(op, cfg_set_validate_func2(cfg, name.c_str(), on ? sim_validcb2 : nullptr));
	} else if (kind == "setprintfilter") {
		bool on = op.value("on", true);
		LIBCALL(op, cfg_set_print_filter_func(cfg, on ? sim_printfilter : nullptr));
	} else if (kind == "setprintfunc") {
		bool on = op.value("on", true);
		LIBCALL(op, cfg_set_print_func(cfg, name.c_str(), on ? sim_printcb : nullptr));
	} else if (kind == "print") {
		r.sres = print_ctx(cfg, op);
		r.has_sres = true;
		want_dump = false;
	} else if (kind == "getters") {
		// query through the by-name getters (C18 "can still be queried")
		const char *nm = name.c_str();
		std::string acc;
		LIBCALL(op, {
			cfg_opt_t *o = cfg_getopt(cfg, nm);
			acc += o ? "opt " : "noopt ";
			acc += std::to_string(cfg_size(cfg, nm));
			if (o)
				for (unsigned k = 0; k < cfg_opt_size(o) && k < 8; k++)
					acc += " " + value_repr(o, k);
			// every by-name accessor must agree with its by-option counterpart (single-level names only)
			if (o && name.find_first_of("|='") == std::string::npos) {
				auto bad = [&](const std::string &what) { acc += " MISMATCH(" + what + ")"; };
				unsigned n = cfg_opt_size(o);
				if (cfg_size(cfg, nm) != n)
					bad("cfg_size");
				if (!cfg_opt_name(o) || (strcmp(cfg_opt_name(o), nm) != 0 && strcasecmp(cfg_opt_name(o), nm) != 0))
					bad("cfg_opt_name");
				if (cfg_getcomment(cfg, nm) != cfg_opt_getcomment(o))
					bad("cfg_getcomment");
				for (unsigned k = 0; k <= n && k < 9; k++) { // k == n: one past the end, both must answer alike
					switch (o->type) {
					case CFGT_INT:
						if (cfg_getnint(cfg, nm, k) != cfg_opt_getnint(o, k) || (k == 0 && cfg_getint(cfg, nm) != cfg_opt_getnint(o, 0)))
							bad("cfg_getnint");
						break;
					case CFGT_FLOAT: {
						double a = cfg_getnfloat(cfg, nm, k), b2 = cfg_opt_getnfloat(o, k), c0 = k == 0 ? cfg_getfloat(cfg, nm) : b2;
						if (memcmp(&a, &b2, sizeof a) != 0 || memcmp(&c0, &b2, sizeof c0) != 0)
							bad("cfg_getnfloat");
						break;
					}
					case CFGT_BOOL:
						if (cfg_getnbool(cfg, nm, k) != cfg_opt_getnbool(o, k) || (k == 0 && cfg_getbool(cfg, nm) != cfg_opt_getnbool(o, 0)))
							bad("cfg_getnbool");
						break;
					case CFGT_STR:
						if (cfg_getnstr(cfg, nm, k) != cfg_opt_getnstr(o, k) || (k == 0 && cfg_getstr(cfg, nm) != cfg_opt_getnstr(o, 0)))
							bad("cfg_getnstr");
						break;
					case CFGT_PTR:
						if (cfg_getnptr(cfg, nm, k) != cfg_opt_getnptr(o, k) || (k == 0 && cfg_getptr(cfg, nm) != cfg_opt_getnptr(o, 0)))
							bad("cfg_getnptr");
						break;
					case CFGT_SEC: {
						cfg_t *s = cfg_opt_getnsec(o, k);
						if (cfg_getnsec(cfg, nm, k) != s || (k == 0 && cfg_getsec(cfg, nm) != s))
							bad("cfg_getnsec");
						if (s && (!cfg_name(s) || strcmp(cfg_name(s), cfg_opt_name(o)) != 0))
							bad("cfg_name");
						if (s && cfg_title(s) && (o->flags & CFGF_TITLE)) {
							cfg_t *t1 = cfg_gettsec(cfg, nm, cfg_title(s)), *t2 = cfg_opt_gettsec(o, cfg_title(s));
							if (t1 != t2 || !t1 || !cfg_title(t1) || strcasecmp(cfg_title(t1), cfg_title(s)) != 0)
								bad("cfg_gettsec");
						}
						break;
					}
					default:
						break;
					}
				}
				// the options of a context can be enumerated: as many as cfg_num() says, this one among them
				unsigned total = cfg_num(cfg), seen = 0;
				for (unsigned k = 0; k < total + 2; k++) {
					cfg_opt_t *e = cfg_getnopt(cfg, k);
					if ((k < total) != (e != nullptr))
						bad("cfg_getnopt");
					if (e == o)
						seen++;
				}
				if (seen != 1)
					bad("cfg_getnopt:self");
			}
		});
		r.sres = acc;
		r.has_sres = true;
		want_dump = false;
	} else if (kind == "restart") {
		// F-restart: save -> process restart -> load (C05)
		std::string dump1;
		dump_cfg(root, dump1, 0);
		std::string text1 = print_ctx(root, op);
		if (E->res.died)
			return;
		LIBCALL(EMPTY, cfg_free(root));
		c.cfg = nullptr;
		if (E->res.died)
			return;
		FsNode node;
		node.bytes = text1;
		W.fs["/sim/restart.conf"] = node;
		c.cfg = do_init(client, c.schema, c.flags, EMPTY);
		c.has_path = false;
		if (!c.cfg || E->res.died) {
			r.ret = -99;
			return;
		}
		LIBCALL(op, r.ret = cfg_parse(c.cfg, "/sim/restart.conf"));
		if (E->res.died)
			return;
		std::string text2 = print_ctx(c.cfg, EMPTY);
		r.aux.push_back(text1);
		r.aux.push_back(dump1);
		r.aux.push_back(text2);
		cfg = c.cfg;
	} else if (kind == "dump") {
		want_dump = true;
	} else {
		r.skipped = true;
		return;
	}

	if (want_dump && !E->res.died && c.cfg) {
		dump_cfg(c.cfg, r.dump, 0);
		if (E->opts.want_tree)
			r.tree = tree_cfg(c.cfg, 0);
	}
}

RunResult execute(const json &plan, const ExecOpts &opts)
{
	Exec ex;
	E = &ex;
	ex.plan = &plan;
	ex.opts = opts;

	W.reset_run();
	const json knobs = plan.contains("knobs") ? plan["knobs"] : json::object();
	W.fill = (unsigned char)(opts.fill_override >= 0 ? opts.fill_override : knobs.value("fill", 0xA5));
	W.default_chunk = knobs.value("chunk", (size_t)0);
	W.recycle_files = knobs.value("recycle", false);
	W.op_alloc_budget = knobs.value("alloc_budget", (uint64_t)1000000);
	ex.default_alloc_budget = W.op_alloc_budget;
	W.op_read_budget = knobs.value("read_budget", (uint64_t)1000000);
	ex.cb_budget = knobs.value("cb_budget", (uint64_t)1000000);
	apply_world(plan);
	W.poll_stdout();
	errno = 0;

	// steps: one global, totally ordered script; each step names its client ("cl")
	const json &steps = plan["steps"];
	ex.res.ops.reserve(steps.size() + 4);

	int index = 0;
	for (const json &op : steps) {
		int cl = op.value("cl", 0);
		int my_index = index++;
		if (opts.only_client >= 0 && cl != opts.only_client && !op.value("shared", 0))
			continue;
		ex.res.ops.emplace_back();
		OpResult &r = ex.res.ops.back();
		r.index = my_index;
		ex.cur = &r;
		W.begin_op(my_index);
		run_op(cl, op, r);
		if (r.fail_fired)
			ex.res.faults_fired_alloc++;
		if (ex.res.died)
			break;
		if (opts.stop_after >= 0 && my_index >= opts.stop_after)
			break;
	}

	// ---- end of run: free what is left, then conservation (DESIGN 6.4)
	if (!ex.res.died) {
		ex.res.ops.emplace_back();
		OpResult &r = ex.res.ops.back();
		r.index = index;
		r.op = "end";
		ex.cur = &r;
		W.begin_op(index);
		for (auto &kv : ex.ctxs) {
			if (kv.second.cfg && !ex.res.died) {
				LIBCALL(EMPTY, cfg_free(kv.second.cfg));
				kv.second.cfg = nullptr;
			}
		}
	}
	// the application releases the strings the library stored in its CFG_SIMPLE_STR variables
	for (SimpleVar *sv : ex.simple_vars)
		if (sv->s && !ex.res.died) {
			sim_free(sv->s, "application", 0);
			sv->s = nullptr;
		}
	if (!ex.res.died) {
		std::map<std::string, int> leaks;
		for (auto &kv : W.live) {
			if (kv.second.unit == 2 && !ex.any_root_created)
				continue;
			leaks[std::string(kv.second.unit == 1 ? "leak:" : "leak-scanner:") + kv.second.func + ":" + kv.second.kind]++;
		}
		for (auto &kv : leaks)
			ex.res.conservation.push_back(kv.first + " x" + std::to_string(kv.second));
		if (!W.lib_open.empty())
			ex.res.conservation.push_back("stream-leak x" + std::to_string(W.lib_open.size()));
		for (auto &kv : ex.ptrs)
			if (kv.second.released != 1 && kv.second.released > -500)
				ex.res.conservation.push_back(std::string("ptr-release released=") + std::to_string(kv.second.released) + " x1 obj(" + kv.second.val + ")");
		if (cfg_include_stack_ptr != 0)
			ex.res.conservation.push_back("include-stack=" + std::to_string(cfg_include_stack_ptr));
		if (W.foreign_free)
			ex.res.conservation.push_back("foreign-free x" + std::to_string(W.foreign_free));
	}
	if (W.stream_use_after_close)
		ex.res.conservation.push_back("stream-use-after-close x" + std::to_string(W.stream_use_after_close));
	ex.res.files_recycled = W.files_recycled;

	std::sort(ex.res.conservation.begin(), ex.res.conservation.end());
	ex.res.allocs_u1 = W.total_u1;
	ex.res.allocs_u2 = W.total_u2;
	ex.res.reads = W.total_reads;
	ex.res.hash = fnv64(ex.res.log());
	if (const char *tr = ::getenv("VERIF_TRACE")) {
		FILE *tf = ::fopen((std::string(tr) + "." + std::to_string(getpid())).c_str(), "a");
		if (tf) {
			fprintf(tf, "=== run scrub=%d only=%d hash=%016lx\n%s", opts.scrub, opts.only_client, (unsigned long)ex.res.hash, ex.res.log().c_str());
			::fclose(tf);
		}
	}

	// ---- restart the process image
	for (auto &kv : ex.ptrs)
		::free(kv.first);
	for (Built *b : ex.builts) {
		release_built(b, false);
		delete b;
	}
	for (SimpleVar *sv : ex.simple_vars)
		delete sv;
	W.free_all_blocks();
	image_restore_all();
	W.poll_stdout();
	E = nullptr;
	return ex.res;
}

} // namespace sim
