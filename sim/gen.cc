// Workload generators.  See gen.h and DESIGN appendix B.
#include "gen.h"
#include "exec.h"

#include <algorithm>
#include <cstring>
#include <functional>

extern "C" {
#include "confuse.h"
}

namespace sim {

static_assert(F_MULTI == CFGF_MULTI && F_LIST == CFGF_LIST && F_NOCASE == CFGF_NOCASE && F_TITLE == CFGF_TITLE &&
		      F_NODEFAULT == CFGF_NODEFAULT && F_NO_TITLE_DUPES == CFGF_NO_TITLE_DUPES && F_IGNORE_UNKNOWN == CFGF_IGNORE_UNKNOWN &&
		      F_DEPRECATED == CFGF_DEPRECATED && F_DROP == CFGF_DROP && F_COMMENTS == CFGF_COMMENTS && F_KEYSTRVAL == CFGF_KEYSTRVAL,
	      "flag values out of sync with confuse.h");

const std::vector<std::string> NAME_POOL = {"alpha", "beta", "gamma", "delta", "eps", "zeta", "eta", "theta",
					    "iota", "kappa", "lambda", "mu", "nu", "xi", "omicron", "pi"};
static const std::vector<std::string> KEY_POOL = {"k1", "k2", "user.name", "x-y", "Key", "colour", "k_3", "z9"};

json Chunk::to_json() const
{
	json j;
	j["t"] = to_json_bytes(t);
	json ts = json::array();
	for (auto &k : toks) {
		json e = json::array({k.s, k.e, k.role});
		e.push_back(k.vt);
		e.push_back(k.depth);
		e.push_back(k.kv ? 1 : 0);
		e.push_back(to_json_bytes(k.opt));
		if (k.has_dec)
			e.push_back(to_json_bytes(k.dec));
		ts.push_back(e);
	}
	j["toks"] = ts;
	if (!inc.empty())
		j["inc"] = inc;
	if (faulty)
		j["faulty"] = 1;
	if (!incs.empty()) {
		json a = json::array();
		for (auto &i : incs)
			a.push_back(json::array({i.s, i.e, i.path}));
		j["incs"] = a;
	}
	return j;
}

json chunks_to_json(const std::vector<Chunk> &cs)
{
	json a = json::array();
	for (auto &c : cs)
		a.push_back(c.to_json());
	return a;
}

std::string chunks_text(const std::vector<Chunk> &cs)
{
	std::string s;
	for (auto &c : cs)
		s += c.t;
	return s;
}

void for_each_opt(const json &opts, const std::function<void(const std::vector<std::string> &, const json &)> &f)
{
	std::function<void(const json &, std::vector<std::string> &)> rec = [&](const json &os, std::vector<std::string> &path) {
		for (auto &o : os) {
			f(path, o);
			if (o.contains("sub")) {
				path.push_back(o["n"].get<std::string>());
				rec(o["sub"], path);
				path.pop_back();
			}
		}
	};
	std::vector<std::string> p;
	rec(opts, p);
}

// ------------------------------------------------------------------ values

std::string gen_string_value(Rng &r, bool hostile, int maxlen)
{
	static const char meta[] = "\"'\\${}#/*=(),+ \t\n|~";
	int n = (int)r.range(0, maxlen);
	if (r.chance(1, 12))
		n = 0;
	else if (maxlen >= 8 && r.chance(1, 25)) {
		// around the 32-byte growth step of the scanner's scratch buffer
		static const int lens[] = {31, 32, 33, 63, 64, 65, 100};
		n = lens[r.below(7)];
	}
	std::string s;
	for (int i = 0; i < n; i++) {
		unsigned k = (unsigned)r.below(10);
		if (!hostile || k < 5)
			s += (char)r.range('a', 'z');
		else if (k < 8)
			s += meta[r.below(sizeof(meta) - 1)];
		else if (k < 9)
			s += (char)r.range(1, 255); // any byte but NUL: control characters, Latin-1 / UTF-8 bytes
		else
			s += (char)r.range('0', '9');
	}
	if (hostile && r.chance(1, 8)) {
		static const char *frag[] = {"${HOME}", "${X:-d}", "/*", "*/", "//", "\\n", "\\\n", "${", "}", "\\x41", "\\101", "'", "\"", "\\", "\r\n", "\n\r", "\r", "\r\n\r\n", "\t\n"};
		s.insert(r.below(s.size() + 1), frag[r.below(sizeof(frag) / sizeof(frag[0]))]);
	}
	return s;
}

static bool unquoted_ok(const std::string &v)
{
	if (v.empty())
		return false;
	for (unsigned char c : v)
		if (c <= ' ' || c >= 0x7f || strchr("#\"'={}()+,*/$\\", c))
			return false;
	return true;
}

std::string encode_string(Rng &r, const std::string &value, int style, bool newlines)
{
	if (style < 0)
		style = (int)r.below(3);
	if (style == 0) {
		if (unquoted_ok(value))
			return value;
		style = 2;
	}
	if (style == 1 && !newlines && value.find('\n') != std::string::npos)
		style = 2; // single quotes have no escape for a newline
	// the encoding is built from units so that a line continuation can be put between any two of them
	std::vector<std::string> units;
	char b[8];
	if (style == 1) {
		for (unsigned char c : value) {
			if (c == '\'')
				units.push_back("\\'");
			else if (c == '\\')
				units.push_back("\\\\");
			else
				units.push_back(std::string(1, (char)c));
		}
	} else {
		for (unsigned char c : value) {
			if (c == '"')
				units.push_back("\\\"");
			else if (c == '\\')
				units.push_back("\\\\");
			else if (c == '$')
				units.push_back("\\$");
			else if (c == '\n')
				units.push_back((!newlines || r.chance(1, 2)) ? "\\n" : "\n");
			else if (c == '\t' && r.chance(1, 2))
				units.push_back("\\t");
			else if (c < 0x20 && r.chance(1, 2)) {
				snprintf(b, sizeof b, "\\x%02x", c);
				units.push_back(b);
			} else
				units.push_back(std::string(1, (char)c));
		}
	}
	std::string o = style == 1 ? "'" : "\"";
	for (size_t i = 0; i <= units.size(); i++) {
		// backslash-newline: the string continues on the next line, nothing is added to the value
		if (newlines && r.chance(1, 24))
			o += "\\\n";
		if (i < units.size())
			o += units[i];
	}
	return o + (style == 1 ? "'" : "\"");
}

std::string gen_int_literal(Rng &r, long *value_out)
{
	long v;
	unsigned k = (unsigned)r.below(10);
	if (k < 6)
		v = r.range(-100, 100);
	else if (k < 8)
		v = r.range(-1000000, 1000000);
	else
		v = (long)(r.next() >> (r.below(40) + 1)) * (r.chance(1, 2) ? 1 : -1);
	char b[80];
	unsigned f = (unsigned)r.below(8);
	if (f == 0 && v >= 0)
		snprintf(b, sizeof b, "0x%lx", v);
	else if (f == 1 && v > 0)
		snprintf(b, sizeof b, "0%lo", v);
	else
		snprintf(b, sizeof b, "%ld", v);
	if (value_out)
		*value_out = v;
	return b;
}

std::string gen_float_literal(Rng &r)
{
	static const char *lits[] = {"0.0", "1.5", "-2.25", "3", "1e3", "-0.125", "42.0", "6.02e23", "1e-5", ".5", "100.", "-7", "12345.678901", "-98765.4321", "0.000123"};
	if (r.chance(1, 2))
		return lits[r.below(sizeof(lits) / sizeof(lits[0]))];
	char b[64];
	snprintf(b, sizeof b, "%ld.%02ld", r.range(-999, 999), r.range(0, 99));
	return b;
}

std::string gen_bool_literal(Rng &r)
{
	static const char *w[] = {"true", "false", "yes", "no", "on", "off"};
	std::string s = w[r.below(6)];
	unsigned k = (unsigned)r.below(4);
	if (k == 0)
		for (auto &c : s)
			c = (char)toupper(c);
	else if (k == 1)
		s[0] = (char)toupper(s[0]);
	return s;
}

std::string gen_comment(Rng &r, bool)
{
	static const char *words[] = {"note", "x = 1", "{", "}", "\"", "'", "todo: fix", "a/b", "**", "#", "$", "", "", ""};
	std::string body = words[r.below(sizeof(words) / sizeof(words[0]))];
	if (r.chance(1, 10)) {
		// lengths around multiples of the scanner's 32-byte scratch-buffer growth step
		static const int lens[] = {30, 31, 32, 33, 63, 64, 65, 96, 130};
		body += std::string((size_t)lens[r.below(9)], 'c');
	}
	if (r.chance(1, 2))
		body = " " + body;
	switch (r.below(4)) {
	case 0:
		return "#" + body + "\n";
	case 1:
		return "//" + body + "\n";
	case 2:
	{
		// block comments may span lines, also completely empty ones, and may end right after a newline
		static const char *tails[] = {"", "", "\n more ", "\n\n\n three lines down ", "\n", "\n\n", " *\n * boxed\n\n *", "\r\n\r\n"};
		return "/*" + body + tails[r.below(8)] + "*/";
	}
	default:
		return std::string(r.chance(1, 2) ? "##" : "///") + body + "\n";
	}
}

std::string gen_ws(Rng &r, bool multiline)
{
	switch (r.below(multiline ? 7 : 4)) {
	case 0:
	case 1:
	case 2:
		return " ";
	case 3:
		return "\t";
	case 4:
		return "\n";
	case 5:
		return " \n  ";
	default:
		return "  ";
	}
}

// ------------------------------------------------------------------ schema

static std::string render_list_default(Rng &r, const std::string &t)
{
	int n = (int)r.range(0, 3);
	std::string s = "{";
	for (int i = 0; i < n; i++) {
		if (i)
			s += ", ";
		if (t == "int")
			s += std::to_string(r.range(-20, 20));
		else if (t == "float")
			s += gen_float_literal(r);
		else if (t == "bool")
			s += gen_bool_literal(r);
		else
			s += "\"" + std::string(1, (char)r.range('a', 'z')) + std::to_string(r.below(10)) + "\"";
	}
	return s + "}";
}

static json gen_opts(Rng &r, const SchemaGen &g, int depth)
{
	std::vector<std::string> names = NAME_POOL;
	for (size_t i = names.size(); i > 1; i--)
		std::swap(names[i - 1], names[r.below(i)]);
	int n = (int)r.range(1, g.max_opts);
	json opts = json::array();
	bool root_used = false;
	for (int i = 0; i < n; i++) {
		json o;
		o["n"] = names[i];
		// choose a kind
		std::vector<std::pair<std::string, int>> kinds = {{"int", 3}, {"float", 1}, {"bool", 2}, {"str", 3}};
		if (g.lists) {
			kinds.push_back({"intl", 2});
			kinds.push_back({"strl", 2});
			kinds.push_back({"floatl", 1});
			kinds.push_back({"booll", 1});
		}
		if (g.sections && depth < g.max_depth)
			kinds.push_back({"sec", 4});
		if (g.funcs && !g.printable_only)
			kinds.push_back({"func", 1});
		if (g.ptrs && !g.printable_only)
			kinds.push_back({"ptr", 2});
		int tot = 0;
		for (auto &k : kinds)
			tot += k.second;
		int pick = (int)r.below(tot);
		std::string kind;
		for (auto &k : kinds) {
			if (pick < k.second) {
				kind = k.first;
				break;
			}
			pick -= k.second;
		}
		int fl = 0;
		if (kind == "sec") {
			o["t"] = "sec";
			if (g.root_name && !root_used && r.chance(1, 10)) {
				o["n"] = "root";
				root_used = true;
			}
			unsigned f = (unsigned)r.below(g.keystrval ? 7 : 6);
			if (!g.title_sections && (f == 2 || f == 3 || f == 4))
				f = 1;
			if (!g.single_title && f == 4)
				f = 2;
			switch (f) {
			case 0: fl = 0; break;
			case 1: fl = F_MULTI; break;
			case 2: fl = F_MULTI | F_TITLE; break;
			case 3: fl = F_MULTI | F_TITLE | F_NO_TITLE_DUPES; break;
			case 4: fl = F_TITLE; break;
			case 5: fl = F_MULTI; break;
			default: fl = F_KEYSTRVAL | (r.chance(1, 2) ? F_MULTI : 0); break;
			}
			SchemaGen g2 = g;
			g2.max_opts = std::max(1, g.max_opts - 2);
			o["sub"] = gen_opts(r, g2, depth + 1);
		} else if (kind == "func") {
			o["t"] = "func";
			o["fn"] = "sim";
		} else if (kind == "ptr") {
			o["t"] = "ptr";
			o["pcb"] = 1;
			if (!r.chance(1, 6))
				o["fcb"] = 1;
			if (r.chance(2, 5))
				fl |= F_LIST;
			if (r.chance(1, 4))
				o["dp"] = (fl & F_LIST) ? "{p1, p2}" : "p0";
		} else {
			bool list = kind.size() > 1 && kind.back() == 'l' && kind != "bool";
			std::string t = list ? kind.substr(0, kind.size() - 1) : kind;
			o["t"] = t;
			if (list) {
				fl |= F_LIST;
				if (!r.chance(3, 10))
					o["dp"] = render_list_default(r, t);
			} else {
				if (g.nodefault && r.chance(15, 100))
					fl |= F_NODEFAULT;
				if (t == "int")
					o["d"] = r.range(-50, 50);
				else if (t == "float")
					o["d"] = (double)r.range(-40, 40) / 4.0;
				else if (t == "bool")
					o["d"] = r.chance(1, 2);
				else if (!r.chance(1, 5))
					o["d"] = to_json_bytes(gen_string_value(r, g.string_defaults_hostile, 8));
			}
			if (g.pcb && !g.printable_only && r.chance(1, 4))
				o["pcb"] = 1;
			if (g.simple && !list && depth == 0 && r.chance(1, 5)) {
				o["simple"] = 1; // bound to an application variable; the library handles no default for these
				o.erase("d");
				fl &= ~F_NODEFAULT;
			}
			if (g.vcb2 && t != "bool" && r.chance(1, 3))
				o["vcb2"] = 1;
			if (g.deprecated && !o.contains("simple") && r.chance(1, 6))
				fl |= F_DEPRECATED | (r.chance(1, 2) ? F_DROP : 0);
		}
		if (g.vcb && o["t"] != "func" && r.chance(3, 10))
			o["vcb"] = 1;
		if (fl)
			o["fl"] = fl;
		if (g.decl_comments && o["t"] != "func" && r.chance(1, 5))
			o["cm"] = "declared note " + std::to_string(r.below(100));
		opts.push_back(o);
	}
	if (g.include && (depth == 0 || r.chance(1, 2))) {
		json inc;
		inc["n"] = "include";
		inc["t"] = "func";
		inc["fn"] = "include";
		opts.push_back(inc);
	}
	return opts;
}

json gen_schema(Rng &r, const SchemaGen &g)
{
	json s;
	s["opts"] = gen_opts(r, g, 0);
	return s;
}

// ------------------------------------------------------------------ text encoder

struct Builder {
	Rng &r;
	const TextGen &g;
	Chunk c;
	int depth = 0;
	int kv_depth = 0;
	void raw(const std::string &s) { c.t += s; }
	void ws() { raw(gen_ws(r, g.multiline)); }
	void maybe_comment()
	{
		int p = g.comments == 0 ? 0 : g.comments == 1 ? 8 : 30;
		if ((int)r.below(100) < p) {
			std::string cm = gen_comment(r);
			size_t s = c.t.size();
			raw(cm);
			Tok t{s, c.t.size(), "c", "", depth, false, kv_depth > 0};
			c.toks.push_back(t);
			raw(r.chance(1, 2) ? " " : "");
		}
	}
	std::string cur_opt;
	void tok(const std::string &text, const std::string &role, const std::string &vt = "")
	{
		size_t s = c.t.size();
		raw(text);
		Tok t{s, c.t.size(), role, vt, depth, false, kv_depth > 0};
		t.opt = cur_opt;
		c.toks.push_back(t);
	}
	void set_dec(const std::string &d)
	{
		c.toks.back().dec = d;
		c.toks.back().has_dec = true;
	}
	void sep()
	{
		// only white space between the tokens of one item: this parser accepts comments between items only
		// (a comment token inside an assignment, list, call or section header is an "unexpected token")
		ws();
	}
};

static std::string case_variant(Rng &r, const std::string &name, int ctx_flags)
{
	if (!(ctx_flags & F_NOCASE) || !r.chance(1, 2))
		return name;
	std::string s = name;
	for (auto &ch : s)
		if (r.chance(1, 2))
			ch = (char)toupper(ch);
	return s;
}

static void emit_value(Builder &b, const json &o, bool last = false)
{
	Rng &r = b.r;
	std::string t = o["t"].get<std::string>();
	bool pcb = o.value("pcb", 0) != 0;
	if (pcb || t == "ptr") {
		// any token: the callback decides
		std::string v = gen_string_value(r, false, 6);
		if (v.empty() && !r.chance(1, 3))
			v = "v"; // sometimes the empty token "" reaches the callback
		b.tok(encode_string(r, v, r.chance(1, 2) ? 0 : 2, b.g.multiline), "v", "any");
		b.set_dec(v);
	} else if (t == "int") {
		b.tok(gen_int_literal(r, nullptr), "v", "int");
		b.set_dec(b.c.t.substr(b.c.toks.back().s));
	} else if (t == "float") {
		b.tok(gen_float_literal(r), "v", "float");
		b.set_dec(b.c.t.substr(b.c.toks.back().s));
	} else if (t == "bool") {
		b.tok(gen_bool_literal(r), "v", "bool");
		b.set_dec(b.c.t.substr(b.c.toks.back().s));
	} else {
		std::string v = gen_string_value(r, b.g.hostile);
		std::string enc = encode_string(r, v, -1, b.g.multiline);
		if (b.g.hostile && r.chance(1, 12)) {
			// an environment reference with a default, unquoted or inside double quotes; the variable is never set in
			// the simulated environment, so the decoded value is the default - which may span lines
			std::string dflt = gen_string_value(r, false, 5);
			if (b.g.multiline && r.chance(1, 2))
				dflt.insert(r.below(dflt.size() + 1), "\n");
			std::string ref = "${NOPE_" + std::to_string(r.below(10)) + ":-" + dflt + "}";
			if (r.chance(1, 2)) {
				enc = ref;
				v = dflt;
			} else {
				std::string pre = gen_string_value(r, false, 3), post = gen_string_value(r, false, 3);
				std::string e1 = encode_string(r, pre, 2, false), e2 = encode_string(r, post, 2, false);
				enc = e1.substr(0, e1.size() - 1) + ref + e2.substr(1);
				v = pre + dflt + post;
			}
		}
		b.tok(enc, "v", "str");
		b.set_dec(v);
	}
	b.c.toks.back().lastv = last;
}

static void emit_items(Builder &b, const json &opts, int budget, bool kv_section);

static bool emittable(const Builder &b, const json &o)
{
	if (o["t"] != "func")
		return true;
	if (b.g.skip_funcs)
		return false;
	if (o.value("fn", std::string()) == "include" && (b.g.skip_include || b.g.include_targets.empty()))
		return false;
	return true;
}

static const json *pick_opt(Builder &b, const json &opts)
{
	for (int tries = 0; tries < 8; tries++) {
		const json &o = opts[b.r.below(opts.size())];
		if (emittable(b, o))
			return &o;
	}
	return nullptr;
}

static void emit_item(Builder &b, const json &o)
{
	Rng &r = b.r;
	std::string t = o["t"].get<std::string>();
	int fl = o.value("fl", 0);
	std::string name = case_variant(r, o["n"].get<std::string>(), b.g.ctx_flags);
	std::string saved_opt = b.cur_opt;
	b.cur_opt = o["n"].get<std::string>();
	struct Restore {
		Builder &b;
		std::string s;
		~Restore() { b.cur_opt = s; }
	} restore{b, saved_opt};
	if (t == "sec") {
		b.tok(name, "n", "sec");
		if (fl & F_TITLE) {
			b.sep();
			std::string title = gen_string_value(r, b.g.hostile, 6);
			if (b.g.unique_titles || (fl & F_NO_TITLE_DUPES))
				title += "#" + std::to_string(r.below(100000));
			b.tok(encode_string(r, title, r.chance(1, 3) ? 0 : 2, b.g.multiline), "t", "str");
			b.set_dec(title);
		}
		b.sep();
		b.tok("{", "p", "secopen");
		b.depth++;
		if (fl & F_KEYSTRVAL)
			b.kv_depth++;
		b.ws();
		emit_items(b, o["sub"], (int)r.range(0, 3), (fl & F_KEYSTRVAL) != 0);
		if (fl & F_KEYSTRVAL)
			b.kv_depth--;
		b.depth--;
		b.tok("}", "p", "secclose");
		return;
	}
	if (t == "func") {
		b.tok(name, "n", "func");
		if (r.chance(1, 3))
			b.ws();
		b.tok("(", "p", "fopen");
		if (o.value("fn", std::string()) == "include") {
			std::string target = b.g.include_targets.empty() ? "/nonexistent" : r.pick(b.g.include_targets);
			b.tok(encode_string(r, target, 2, false), "a", "str");
		} else {
			int n = (int)r.range(0, 3);
			for (int i = 0; i < n; i++) {
				if (i) {
					b.tok(",", "p", "fcomma");
					b.ws();
				}
				std::string v = gen_string_value(r, b.g.hostile, 6);
				b.tok(encode_string(r, v, -1, b.g.multiline), "a", "str");
				b.set_dec(v);
			}
		}
		b.tok(")", "p", "fclose");
		return;
	}
	bool list = (fl & F_LIST) != 0;
	b.tok(name, "n", list ? "list" : "scalar");
	b.sep();
	bool plus = list && b.g.plus && r.chance(1, 3);
	b.tok(plus ? "+=" : "=", "o", "");
	b.sep();
	if (!list) {
		emit_value(b, o, true);
		return;
	}
	if (r.chance(1, 6)) {
		emit_value(b, o, true); // single value without braces
		return;
	}
	b.tok("{", "p", "lopen");
	int n = (int)r.range(0, 4);
	for (int i = 0; i < n; i++) {
		if (i) {
			b.tok(",", "p", "lcomma");
		}
		b.ws();
		emit_value(b, o, i == n - 1);
		if (r.chance(1, 3))
			b.ws();
	}
	b.tok("}", "p", "lclose");
}

static void emit_items(Builder &b, const json &opts, int budget, bool kv_section)
{
	Rng &r = b.r;
	for (int i = 0; i < budget; i++) {
		if (kv_section && r.chance(2, 3)) {
			// free-form key = value
			std::string key = r.pick(KEY_POOL);
			std::string saved = b.cur_opt;
			b.cur_opt = key;
			b.tok(key, "n", "kv");
			b.sep();
			b.tok("=", "o", "");
			b.sep();
			std::string v = gen_string_value(r, b.g.hostile, 8);
			b.tok(encode_string(r, v, -1, b.g.multiline), "v", "str");
			b.set_dec(v);
			b.c.toks.back().lastv = true;
			b.cur_opt = saved;
		} else {
			if (opts.empty())
				break;
			const json *o = pick_opt(b, opts);
			if (!o)
				break;
			emit_item(b, *o);
		}
		b.ws();
		b.maybe_comment();
	}
}

std::vector<Chunk> gen_text(Rng &r, const json &opts, const TextGen &g)
{
	std::vector<Chunk> out;
	int n = (int)r.range(0, g.max_items);
	if (opts.empty())
		n = 0;
	std::set<std::string> used_titles;
	for (int i = 0; i < n; i++) {
		Builder b{r, g, Chunk(), 0};
		b.maybe_comment();
		const json *o = pick_opt(b, opts);
		if (!o)
			continue;
		emit_item(b, *o);
		// every chunk ends with a newline so that chunks can be dropped or moved to other files
		b.raw(r.chance(1, 5) ? " \n\n" : "\n");
		b.maybe_comment();
		if (!b.c.t.empty() && b.c.t.back() != '\n')
			b.raw("\n");
		// chunk text travels through JSON: convert to the code-point representation
		out.push_back(b.c);
	}
	return out;
}

} // namespace sim

namespace sim {

std::vector<OptRef> collect_opts(Rng &r, const json &opts)
{
	std::vector<OptRef> out;
	std::function<void(const json &, json, bool)> rec = [&](const json &os, json at, bool in_multi) {
		for (auto &o : os) {
			out.push_back(OptRef{at, o, in_multi});
			if (o["t"] == "sec" && o.contains("sub")) {
				int fl = o.value("fl", 0);
				json at2 = at;
				unsigned idx = (fl & F_MULTI) ? (unsigned)r.below(3) : 0;
				at2.push_back(json::array({o["n"], idx, fl})); // name, instance, declared flags of the section
				rec(o["sub"], at2, in_multi || (fl & F_MULTI));
			}
		}
	};
	rec(opts, json::array(), false);
	return out;
}

// the first NT titles are used for add / remove: one contains '=', "t1" is a proper prefix of "t10" and "t" of both
// ("a" next to "a=b": a bare title runs up to the next '|', an '=' inside it belongs to it)
static const char *TITLES[] = {"t10", "t1", "a=b", "a", "t", "x|y", "it's", "", "T1", "T0", "a b", "q'x"};
static const int NT = 9;

// a title from the pool; in case-insensitive runs half of them with the letter case flipped
static std::string pool_title(Rng &r, bool flip_case)
{
	std::string t = TITLES[r.below(NT)];
	if (r.chance(1, 16)) // two long titles that differ only after their 256th byte
		t = std::string(256, 'L') + (r.chance(1, 2) ? "-a" : "-b");
	if (flip_case && r.chance(1, 2))
		for (auto &c : t)
			c = isupper((unsigned char)c) ? (char)tolower((unsigned char)c) : (char)toupper((unsigned char)c);
	return t;
}

// a title as written in a path: bare, properly quoted, or quoted and malformed
static std::string path_title(Rng &r, const std::string &t)
{
	std::string esc;
	for (char c : t) {
		if (c == '\'' || c == '\\')
			esc += '\\';
		esc += c;
	}
	switch (r.below(8)) {
	case 0:
	case 1:
		return "'" + esc + "'";
	case 2:
		return r.chance(1, 2) ? "'" + esc : "'" + esc + "\\"; // never closed / ends in a lone backslash
	case 3:
		return "'" + esc.substr(0, esc.size() / 2) + "\\" + esc.substr(esc.size() / 2) + "'"; // a backslash before an ordinary character is no escape
	default:
		return t;
	}
}

// the stepwise address 'at' written as the leading components of a path ("outer=1|mid='a title'|"); titled
// sections are addressed by a title from the pool, which may or may not exist (the model decides what follows)
std::string path_prefix(Rng &r, const json &at)
{
	std::string p;
	for (auto &a : at) {
		int fl = a.size() > 2 ? a[2].get<int>() : 0;
		p += a[0].get<std::string>();
		if (fl & F_MULTI) {
			if (fl & F_TITLE)
				p += "=" + path_title(r, TITLES[r.below(NT)]);
			else if (a[1].get<unsigned>() != 0 || r.chance(1, 2))
				p += "=" + std::to_string(a[1].get<unsigned>());
		}
		p += "|";
	}
	return p;
}

static json typed_value(Rng &r, const std::string &t, bool hostile)
{
	if (t == "int")
		return r.range(-1000, 1000);
	if (t == "float") {
		if (r.chance(1, 4)) // more significant digits than %g would keep, and large magnitudes
			return (double)r.range(-99999999, 99999999) / 1024.0;
		return (double)r.range(-800, 800) / 8.0;
	}
	if (t == "bool")
		return r.chance(1, 2);
	return to_json_bytes(gen_string_value(r, hostile, 8));
}

static std::string text_value(Rng &r, const std::string &t, bool bad)
{
	if (bad) {
		static const char *junk[] = {"zz", "1x", "", "0x", "9999999999999999999999", "1e999", "maybe", "--1", "0b2", "08"};
		return junk[r.below(sizeof(junk) / sizeof(junk[0]))];
	}
	if (t == "int")
		return gen_int_literal(r, nullptr);
	if (t == "float")
		return gen_float_literal(r);
	if (t == "bool")
		return gen_bool_literal(r);
	return gen_string_value(r, false, 6);
}

static json gen_api_step_inner(Rng &r, int cl, int ctx, const std::vector<OptRef> &refs, const ApiGen &g);

json gen_api_step(Rng &r, int cl, int ctx, const std::vector<OptRef> &refs, const ApiGen &g)
{
	json s = gen_api_step_inner(r, cl, ctx, refs, g);
	// a third of the calls that have an equivalent second entry point (cfg_setint for cfg_setnint(..., 0), the
	// by-option removers and annotation setter for the by-name ones) go through that one
	std::string op = s.value("op", std::string());
	if ((op == "setint" || op == "setfloat" || op == "setbool" || op == "setstr" || op == "rmnsec" || op == "rmtsec" || op == "setcomment") && r.chance(1, 3))
		s["alt"] = 1;
	return s;
}

static json gen_api_step_inner(Rng &r, int cl, int ctx, const std::vector<OptRef> &refs, const ApiGen &g)
{
	json s;
	s["cl"] = cl;
	s["c"] = ctx;
	if (refs.empty()) {
		s["op"] = "dump";
		return s;
	}
	const OptRef &ref = refs[r.below(refs.size())];
	std::string t = ref.decl["t"].get<std::string>();
	int fl = ref.decl.value("fl", 0);
	bool list = (fl & F_LIST) != 0;
	s["at"] = ref.at;
	s["name"] = ref.decl["n"];
	if (g.illegal && r.chance(1, 12)) {
		// illegal call: wrong type, unknown name, index beyond a scalar
		unsigned k = (unsigned)r.below(3);
		if (k == 0) {
			static const char *types[] = {"int", "float", "bool", "str"};
			std::string wt = types[r.below(4)];
			s["op"] = std::string(r.chance(1, 2) ? "set" : "oset") + wt;
			s["v"] = typed_value(r, wt, false);
			s["idx"] = 0;
			return s;
		}
		if (k == 1) {
			s["name"] = "nosuchopt";
			s["op"] = "setint";
			s["v"] = 1;
			s["idx"] = 0;
			return s;
		}
		if (t != "sec" && t != "func" && t != "ptr") {
			s["op"] = "set" + t;
			s["v"] = typed_value(r, t, false);
			s["idx"] = list ? (unsigned)r.range(0, 6) : (unsigned)r.range(1, 3);
			return s;
		}
	}
	if (t == "sec") {
		if (!g.sections) {
			s["op"] = "dump";
			return s;
		}
		unsigned k = (unsigned)r.below(6);
		if (k < 2 && (fl & F_TITLE) && (fl & F_MULTI)) {
			s["op"] = "addtsec";
			s["title"] = pool_title(r, g.flip_title_case);
		} else if (k == 2) {
			s["op"] = "rmnsec";
			s["idx"] = (unsigned)r.below(4);
		} else if (k == 3 && (fl & F_TITLE)) {
			s["op"] = "rmtsec";
			s["title"] = pool_title(r, g.flip_title_case);
		} else if (k == 4) {
			s["op"] = "rmsec";
			std::string p = ref.decl["n"].get<std::string>();
			if (fl & F_MULTI)
			{
				static const char *badidx[] = {"1st", "0x", "2.0", "-1", " 1", "1 ", "0x1"};
				p += "=" + ((fl & F_TITLE) ? path_title(r, pool_title(r, g.flip_title_case)) : (r.chance(1, 4) ? std::string(badidx[r.below(7)]) : std::to_string(r.below(3))));
			}
			// a nested section is sometimes addressed by one path from the top instead of step by step
			if (!ref.at.empty() && r.chance(1, 3)) {
				p = path_prefix(r, ref.at) + p;
				s["at"] = json::array();
			}
			s["name"] = p;
		} else if ((fl & F_TITLE) && (fl & F_MULTI)) {
			s["op"] = "addtsec";
			s["title"] = pool_title(r, g.flip_title_case);
		} else {
			s["op"] = "getters";
		}
		return s;
	}
	if (t == "func") {
		s["op"] = "getters";
		return s;
	}
	if (t == "ptr") {
		if (g.text_setters && r.chance(2, 3)) {
			if (list && r.chance(1, 2)) {
				s["op"] = "setmulti";
				s["vals"] = json::array({"pa", "pb"});
			} else {
				s["op"] = "setopt";
				s["v"] = "pz";
			}
		} else
			s["op"] = "getters";
		return s;
	}
	unsigned k = (unsigned)r.below(12);
	if (k < 3) {
		s["op"] = std::string((g.by_option && r.chance(1, 3)) ? "oset" : "set") + t;
		s["v"] = typed_value(r, t, g.hostile_strings);
		s["idx"] = list ? (unsigned)r.range(0, 3) : 0u;
		if (t == "str" && s["op"] == "setstr" && r.chance(1, 6))
			s["self"] = true; // the current value itself is passed back
	} else if (k < 5 && g.text_setters) {
		s["op"] = "setopt";
		s["v"] = to_json_bytes(text_value(r, t, g.bad_text && r.chance(1, 3)));
	} else if (k < 7 && g.text_setters) {
		s["op"] = "setmulti";
		int n = list ? (int)r.range(1, 4) : (r.chance(1, 4) ? (int)r.range(2, 3) : 1); // several values for a scalar: the last one stays
		if (g.illegal && r.chance(1, 15))
			n = 0; // a bulk set without values is refused
		json vals = json::array();
		int badpos = (g.bad_text && r.chance(1, 3)) ? (int)r.below(n) : -1;
		for (int i = 0; i < n; i++)
			vals.push_back(to_json_bytes(text_value(r, t, i == badpos)));
		s["vals"] = vals;
		if (r.chance(1, 3))
			s["byopt"] = true;
	} else if (k < 9 && list) {
		s["op"] = r.chance(1, 2) ? "setlist" : "addlist";
		int n = (int)r.range(0, 4);
		json vals = json::array();
		for (int i = 0; i < n; i++)
			vals.push_back(typed_value(r, t, g.hostile_strings));
		s["vals"] = vals;
	} else if (k == 9 && g.comments) {
		s["op"] = "setcomment";
		s["text"] = to_json_bytes(gen_string_value(r, false, 8));
	} else if (k == 10 && g.getters) {
		s["op"] = "getters";
	} else {
		s["op"] = "set" + t;
		s["v"] = typed_value(r, t, g.hostile_strings);
		s["idx"] = 0u;
	}
	return s;
}

} // namespace sim
