// The simulated world: every call-out of the library goes through a seam here.
// Allocator (S1), streams (S2), file namespace (S3), process environment (S4),
// process death (S8), stdout (S9), scanner tty knob (S7).
#pragma once
#include <csetjmp>
#include <cstdint>
#include <cstdio>
#include <map>
#include <set>
#include <string>
#include <unordered_map>
#include <vector>

namespace sim {

struct AllocRec {
	size_t size;
	const char *func;  // __func__ of the requesting library function
	const char *kind;  // malloc / calloc / ...
	int unit;          // 1 = confuse.c, 2 = scanner
	uint64_t serial;   // global allocation serial within the run
	int op;            // index of the op during which it was allocated
};

enum FsKind { FS_FILE = 0, FS_DIR = 1, FS_NOPERM = 2, FS_LINK = 3 }; // FS_LINK: bytes hold the target path
struct FsNode {
	FsKind kind = FS_FILE;
	std::string bytes;
	long cut = -1;     // stream reports EOF after this many bytes
};

struct PwEnt {
	std::string name;
	unsigned uid;
	std::string dir;
};

struct SimStream {
	int id = 0;
	std::string bytes;
	size_t pos = 0;
	size_t chunk = 0;       // max bytes per read callback (0 = unlimited)
	bool eisdir = false;    // first read fails with EISDIR
	bool by_lib = false;    // opened through the wrapped fopen()
	bool closed = false;
	uint64_t reads = 0;
	std::string name;
	FILE *fp = nullptr;
	void *cookie = nullptr; // FileCookie of the FILE this stream is read through
	FILE *recycled_fp = nullptr; // closed, but its FILE is kept in the pool for the next stream
};

// Why a library call did not return normally.
enum DeathKind { D_NONE = 0, D_EXIT, D_ABORT, D_ASSERT, D_BUDGET_ALLOC, D_BUDGET_READ, D_BUDGET_CB };

struct World {
	// ---- S1 allocator
	std::unordered_map<void *, AllocRec> live;
	uint64_t serial = 0;          // all requests this run
	uint64_t op_requests_u1 = 0;  // requests from confuse.c within the current op
	uint64_t op_requests_all = 0; // all requests within the current op (budget)
	uint64_t fail_at = 0;         // fail the k-th confuse.c request in this op (0 = none)
	bool fail_fired = false;
	std::string fail_site;        // "func:kind" of the failed request
	unsigned char fill = 0xA5;
	uint64_t op_alloc_budget = 0; // 0 = unlimited
	uint64_t foreign_free = 0;    // frees of blocks the table does not know
	uint64_t total_u1 = 0, total_u2 = 0;
	int cur_op = -1;

	// ---- S2/S3 streams and file namespace
	std::map<std::string, FsNode> fs;
	std::vector<SimStream *> streams;     // all created this run
	std::set<FILE *> lib_open;            // FILE* opened by library (fopen/fmemopen) and not yet closed
	uint64_t lib_opened = 0, lib_closed = 0;
	uint64_t op_reads = 0, op_read_budget = 0;
	size_t default_chunk = 0;
	uint64_t fopen_calls = 0, stat_calls = 0;
	uint64_t total_reads = 0;

	// ---- S4 environment
	std::map<std::string, std::string> env;
	std::vector<PwEnt> passwd;
	unsigned euid = 0;
	uint64_t getenv_calls = 0, getpw_calls = 0;
	long getpwnam_maxlen = 0;

	// ---- S7
	bool tty = false;

	// ---- S8 death
	bool in_lib = false;
	sigjmp_buf jb;
	DeathKind death = D_NONE;
	std::string death_info;

	// ---- S9 stdout
	int stdout_fd = -1;     // memfd that replaced fd 1 (or -1 when not captured)
	off_t stdout_seen = 0;
	// FILE address reuse (S2b): a real allocator hands the FILE of a closed stream out again for the next one opened.
	// ASan's quarantine hides that; with this knob a closed simulated stream's FILE is kept and re-targeted instead.
	bool recycle_files = false;
	std::vector<FILE *> file_pool;
	uint64_t files_recycled = 0;
	uint64_t stream_use_after_close = 0;
	bool stdin_captured = false;
	uint64_t poll_stdin(); // bytes the process read from its standard input since the last poll

	void reset_run();       // forget everything (after the image restart freed the blocks)
	void begin_op(int op_index);
	std::string poll_stdout(); // bytes written to fd 1 since the last poll
	SimStream *new_stream(const std::string &bytes, const std::string &name, bool by_lib);
	void free_all_blocks(); // release every live block and stream (restart)
	void free_unit_blocks(int unit);
};

extern World W;

// process image (library .data/.bss) snapshot / restore
void image_snapshot();
void image_restore_all();
void image_restore_scanner();
size_t image_bytes();

void capture_stdout();  // redirect fd 1 to a memfd, fd 0 to a memfd full of sentinel text

} // namespace sim
