// Seams of the simulated world.  See world.h / DESIGN.md section 3.
#ifndef _GNU_SOURCE
#define _GNU_SOURCE
#endif
#include <stdio_ext.h>
#include "world.h"

#include <cerrno>
#include <cstdlib>
#include <cstring>
#include <fcntl.h>
#include <pwd.h>
#include <sys/mman.h>
#include <sys/stat.h>
#include <unistd.h>

namespace sim {

World W;

// ------------------------------------------------------------------ image

extern "C" {
extern char __start_simdcfg[] __attribute__((weak)), __stop_simdcfg[] __attribute__((weak));
extern char __start_simbcfg[] __attribute__((weak)), __stop_simbcfg[] __attribute__((weak));
extern char __start_simrcfg[] __attribute__((weak)), __stop_simrcfg[] __attribute__((weak));
extern char __start_simdlex[] __attribute__((weak)), __stop_simdlex[] __attribute__((weak));
extern char __start_simblex[] __attribute__((weak)), __stop_simblex[] __attribute__((weak));
extern char __start_simrlex[] __attribute__((weak)), __stop_simrlex[] __attribute__((weak));
extern char *cfg_yylval;
}

struct Region {
	char *start, *stop;
	char *snap;
	bool scanner;
};
static Region regions[6];
static int nregions = 0;

__attribute__((no_sanitize("address"), no_sanitize("undefined"), noinline))
static void raw_copy(char *d, const char *s, size_t n)
{
	// Non-instrumented copy: the regions contain sanitizer red zones.
	size_t i = 0;
	for (; i + 8 <= n; i += 8)
		*(volatile uint64_t *)(d + i) = *(const volatile uint64_t *)(s + i);
	for (; i < n; i++)
		*(volatile char *)(d + i) = *(const volatile char *)(s + i);
}

static void add_region(char *a, char *b, bool scanner)
{
	if (!a || !b || b <= a)
		return;
	Region &r = regions[nregions++];
	r.start = a;
	r.stop = b;
	r.scanner = scanner;
	r.snap = (char *)::malloc(b - a);
	raw_copy(r.snap, a, b - a);
}

void image_snapshot()
{
	nregions = 0;
	add_region(__start_simdcfg, __stop_simdcfg, false);
	add_region(__start_simbcfg, __stop_simbcfg, false);
	add_region(__start_simrcfg, __stop_simrcfg, false);
	add_region(__start_simdlex, __stop_simdlex, true);
	add_region(__start_simblex, __stop_simblex, true);
	add_region(__start_simrlex, __stop_simrlex, true);
}

size_t image_bytes()
{
	size_t n = 0;
	for (int i = 0; i < nregions; i++)
		n += regions[i].stop - regions[i].start;
	return n;
}

void image_restore_all()
{
	for (int i = 0; i < nregions; i++)
		raw_copy(regions[i].start, regions[i].snap, regions[i].stop - regions[i].start);
}

void image_restore_scanner()
{
	for (int i = 0; i < nregions; i++)
		if (regions[i].scanner)
			raw_copy(regions[i].start, regions[i].snap, regions[i].stop - regions[i].start);
	cfg_yylval = nullptr;
}

// ------------------------------------------------------------------ world

void World::reset_run()
{
	live.clear();
	serial = 0;
	op_requests_u1 = op_requests_all = 0;
	fail_at = 0;
	fail_fired = false;
	fail_site.clear();
	fill = 0xA5;
	op_alloc_budget = 0;
	foreign_free = 0;
	total_u1 = total_u2 = 0;
	cur_op = -1;
	fs.clear();
	streams.clear();
	file_pool.clear();
	recycle_files = false;
	files_recycled = stream_use_after_close = 0;
	lib_open.clear();
	lib_opened = lib_closed = 0;
	op_reads = op_read_budget = 0;
	default_chunk = 0;
	fopen_calls = stat_calls = 0;
	total_reads = 0;
	env.clear();
	passwd.clear();
	euid = 0;
	getenv_calls = getpw_calls = 0;
	getpwnam_maxlen = 0;
	tty = false;
	in_lib = false;
	death = D_NONE;
	death_info.clear();
}

void World::begin_op(int op_index)
{
	cur_op = op_index;
	op_requests_u1 = op_requests_all = 0;
	op_reads = 0;
	fail_at = 0;
	fail_fired = false;
	fail_site.clear();
	death = D_NONE;
	death_info.clear();
}

void capture_stdout()
{
	int fd = memfd_create("sim-stdout", 0);
	if (fd < 0)
		return;
	fflush(stdout);
	dup2(fd, 1);
	close(fd);
	W.stdout_fd = 1;
	W.stdout_seen = 0;
	// standard input: a scanner that lost its input falls back to stdin (flex: "if (!yyin) yyin = stdin") - a real
	// process would hang there.  Here fd 0 holds sentinel text, and whoever reads it moves the offset.
	int in = memfd_create("sim-stdin", 0);
	if (in >= 0) {
		std::string sentinel;
		while (sentinel.size() < 16384)
			sentinel += "zz_stdin_sentinel = 1\n";
		if (write(in, sentinel.data(), sentinel.size()) == (ssize_t)sentinel.size()) {
			lseek(in, 0, SEEK_SET);
			dup2(in, 0);
			W.stdin_captured = true;
		}
		close(in);
	}
}

uint64_t World::poll_stdin()
{
	if (!stdin_captured)
		return 0;
	off_t pos = lseek(0, 0, SEEK_CUR);
	if (pos <= 0)
		return 0;
	// drop the C library's read-ahead and rewind, so that the next reader finds the same bytes
	fflush(stdin);
	clearerr(stdin);
	lseek(0, 0, SEEK_SET);
	return (uint64_t)pos;
}

std::string World::poll_stdout()
{
	std::string out;
	if (stdout_fd < 0)
		return out;
	fflush(stdout);
	struct stat st;
	if (fstat(stdout_fd, &st) != 0)
		return out;
	if (st.st_size > stdout_seen) {
		out.resize(st.st_size - stdout_seen);
		ssize_t n = pread(stdout_fd, &out[0], out.size(), stdout_seen);
		if (n < 0)
			n = 0;
		out.resize(n);
		stdout_seen = st.st_size;
	}
	if (stdout_seen > (1 << 20)) {
		// keep the memfd small
		if (ftruncate(stdout_fd, 0) == 0) {
			lseek(stdout_fd, 0, SEEK_SET);
			stdout_seen = 0;
		}
	}
	return out;
}

extern "C" {
FILE *__real_fopen(const char *, const char *);
int __real_fclose(FILE *);
FILE *__real_fmemopen(void *, size_t, const char *);
int __real_stat(const char *, struct stat *);
int __real_lstat(const char *, struct stat *);
int __real_fstat(int, struct stat *);
int __real_fileno(FILE *);
char *__real_getenv(const char *);
struct passwd *__real_getpwnam(const char *);
struct passwd *__real_getpwuid(uid_t);
uid_t __real_geteuid(void);
int __real_isatty(int);
void __real_exit(int) __attribute__((noreturn));
void __real_abort(void) __attribute__((noreturn));
void __real___assert_fail(const char *, const char *, unsigned, const char *) __attribute__((noreturn));
}

struct FileCookie {
	SimStream *cur; // the stream this FILE currently reads
};

static ssize_t ck_read(void *c, char *buf, size_t n)
{
	SimStream *s = ((FileCookie *)c)->cur;
	if (s->closed) {
		// only reachable with recycled FILEs: the library reads a stream it has closed
		W.stream_use_after_close++;
		errno = EBADF;
		return -1;
	}
	s->reads++;
	W.op_reads++;
	W.total_reads++;
	if (W.in_lib && W.op_read_budget && W.op_reads > W.op_read_budget) {
		W.death = D_BUDGET_READ;
		W.death_info = s->name;
		siglongjmp(W.jb, 1);
	}
	if (s->eisdir) {
		errno = EISDIR;
		return -1;
	}
	size_t avail = s->bytes.size() - s->pos;
	size_t k = n < avail ? n : avail;
	if (s->chunk && k > s->chunk)
		k = s->chunk;
	if (k)
		memcpy(buf, s->bytes.data() + s->pos, k);
	s->pos += k;
	return (ssize_t)k;
}

static int ck_close(void *c)
{
	FileCookie *fc = (FileCookie *)c;
	SimStream *s = fc->cur;
	s->closed = true;
	s->fp = nullptr;
	s->cookie = nullptr;
	delete fc;
	return 0;
}

SimStream *World::new_stream(const std::string &bytes, const std::string &name, bool by_lib)
{
	SimStream *s = new SimStream();
	s->id = (int)streams.size();
	s->bytes = bytes;
	s->name = name;
	s->by_lib = by_lib;
	s->chunk = default_chunk;
	if (recycle_files && !file_pool.empty()) {
		// the FILE of a stream closed earlier, at its old address, now reading this stream
		FILE *fp = file_pool.back();
		file_pool.pop_back();
		FileCookie *fc = nullptr;
		for (SimStream *o : streams)
			if (o->recycled_fp == fp) {
				fc = (FileCookie *)o->cookie;
				o->recycled_fp = nullptr;
				o->cookie = nullptr;
			}
		if (fc) {
			fc->cur = s;
			s->cookie = fc;
			s->fp = fp;
			__fpurge(fp);
			clearerr(fp);
			files_recycled++;
			streams.push_back(s);
			return s;
		}
	}
	cookie_io_functions_t io = {ck_read, nullptr, nullptr, ck_close};
	FileCookie *fc = new FileCookie{s};
	s->cookie = fc;
	s->fp = fopencookie(fc, "r", io);
	streams.push_back(s);
	return s;
}

void World::free_unit_blocks(int unit)
{
	for (auto it = live.begin(); it != live.end();) {
		if (it->second.unit == unit) {
			::free(it->first);
			it = live.erase(it);
		} else
			++it;
	}
}

void World::free_all_blocks()
{
	for (auto &kv : live)
		::free(kv.first);
	live.clear();
	for (FILE *fp : lib_open) {
		bool cookie = false;
		for (SimStream *s : streams)
			if (s->fp == fp)
				cookie = true;
		if (!cookie)
			__real_fclose(fp);
	}
	lib_open.clear();
	std::vector<FILE *> pool;
	pool.swap(file_pool);
	for (SimStream *s : streams)
		s->closed = s->closed && s->recycled_fp == nullptr; // pooled FILEs are closed for real now
	for (FILE *fp : pool)
		__real_fclose(fp); // ck_close marks its stream
	for (SimStream *s : streams) {
		if (s->fp)
			__real_fclose(s->fp);
		delete s;
	}
	streams.clear();
}

} // namespace sim

using sim::W;

// ------------------------------------------------------------------ S1 allocator

static void alloc_budget_check(const char *func)
{
	W.serial++;
	W.op_requests_all++;
	if (W.in_lib && W.op_alloc_budget && W.op_requests_all > W.op_alloc_budget) {
		W.death = sim::D_BUDGET_ALLOC;
		W.death_info = func;
		siglongjmp(W.jb, 1);
	}
}

// returns true when this request must fail
static bool alloc_should_fail(const char *func, const char *kind, int unit)
{
	if (unit == 1) {
		W.total_u1++;
		W.op_requests_u1++;
		if (W.fail_at && W.op_requests_u1 == W.fail_at) {
			W.fail_fired = true;
			W.fail_site = std::string(func) + ":" + kind;
			errno = ENOMEM;
			return true;
		}
	} else {
		W.total_u2++;
	}
	return false;
}

static void *record(void *p, size_t n, const char *func, const char *kind, int unit)
{
	if (p)
		W.live[p] = sim::AllocRec{n, func, kind, unit, W.serial, W.cur_op};
	return p;
}

extern "C" {

void *sim_malloc(size_t n, const char *func, int unit)
{
	alloc_budget_check(func);
	if (alloc_should_fail(func, "malloc", unit))
		return nullptr;
	void *p = ::malloc(n);
	if (p && n)
		memset(p, W.fill, n);
	return record(p, n, func, "malloc", unit);
}

void *sim_calloc(size_t a, size_t b, const char *func, int unit)
{
	alloc_budget_check(func);
	if (alloc_should_fail(func, "calloc", unit))
		return nullptr;
	void *p = ::calloc(a, b);
	return record(p, a * b, func, "calloc", unit);
}

void *sim_realloc(void *old, size_t n, const char *func, int unit)
{
	alloc_budget_check(func);
	if (alloc_should_fail(func, "realloc", unit))
		return nullptr;
	size_t oldn = 0;
	if (old) {
		auto it = W.live.find(old);
		if (it != W.live.end()) {
			oldn = it->second.size;
			W.live.erase(it);
		} else {
			W.foreign_free++;
		}
	}
	void *p = ::realloc(old, n);
	if (p && n > oldn)
		memset((char *)p + oldn, W.fill, n - oldn);
	return record(p, n, func, "realloc", unit);
}

void *sim_reallocarray(void *old, size_t a, size_t b, const char *func, int unit)
{
	alloc_budget_check(func);
	if (alloc_should_fail(func, "reallocarray", unit))
		return nullptr;
	size_t n;
	if (__builtin_mul_overflow(a, b, &n)) {
		errno = ENOMEM;
		return nullptr;
	}
	size_t oldn = 0;
	if (old) {
		auto it = W.live.find(old);
		if (it != W.live.end()) {
			oldn = it->second.size;
			W.live.erase(it);
		} else {
			W.foreign_free++;
		}
	}
	void *p = ::realloc(old, n);
	if (p && n > oldn)
		memset((char *)p + oldn, W.fill, n - oldn);
	return record(p, n, func, "reallocarray", unit);
}

char *sim_strdup(const char *s, const char *func, int unit)
{
	alloc_budget_check(func);
	if (alloc_should_fail(func, "strdup", unit))
		return nullptr;
	size_t n = strlen(s) + 1; // a NULL argument crashes here exactly as strdup() would
	char *p = (char *)::malloc(n);
	if (p)
		memcpy(p, s, n);
	return (char *)record(p, n, func, "strdup", unit);
}

char *sim_strndup(const char *s, size_t n, const char *func, int unit)
{
	alloc_budget_check(func);
	if (alloc_should_fail(func, "strndup", unit))
		return nullptr;
	size_t l = strnlen(s, n);
	char *p = (char *)::malloc(l + 1);
	if (p) {
		memcpy(p, s, l);
		p[l] = 0;
	}
	return (char *)record(p, l + 1, func, "strndup", unit);
}

void sim_free(void *p, const char *func, int unit)
{
	(void)func;
	(void)unit;
	if (!p)
		return;
	auto it = W.live.find(p);
	if (it != W.live.end())
		W.live.erase(it);
	else
		W.foreign_free++;
	::free(p); // a double free is reported by ASan here
}

// ------------------------------------------------------------------ S3 file namespace

// Path lookup as a file system does it: runs of '/' count as one; a trailing '/' demands a directory.
static sim::FsNode *fs_lookup(const char *path, int *err, bool follow = true, int hops = 0)
{
	std::string p;
	for (const char *c = path; *c; c++)
		if (!(*c == '/' && !p.empty() && p.back() == '/'))
			p += *c;
	bool want_dir = p.size() > 1 && p.back() == '/';
	if (want_dir)
		p.pop_back();
	auto it = W.fs.find(p);
	if (it == W.fs.end()) {
		*err = ENOENT;
		return nullptr;
	}
	if (it->second.kind == sim::FS_LINK && (follow || want_dir)) {
		// symbolic link (final component only: the simulated namespace is flat below its directories)
		if (hops >= 8) {
			*err = ELOOP;
			return nullptr;
		}
		std::string target = it->second.bytes + (want_dir ? "/" : "");
		return fs_lookup(target.c_str(), err, true, hops + 1);
	}
	if (want_dir && it->second.kind != sim::FS_DIR) {
		*err = ENOTDIR;
		return nullptr;
	}
	return &it->second;
}

FILE *__wrap_fopen(const char *path, const char *mode)
{
	if (!W.in_lib)
		return sim::__real_fopen(path, mode);
	W.fopen_calls++;
	int lerr = 0;
	sim::FsNode *np = fs_lookup(path, &lerr);
	if (!np) {
		errno = lerr;
		return nullptr;
	}
	sim::FsNode &n = *np;
	if (n.kind == sim::FS_NOPERM) {
		errno = EACCES;
		return nullptr;
	}
	std::string bytes = n.bytes;
	if (n.cut >= 0 && (size_t)n.cut < bytes.size())
		bytes.resize(n.cut);
	sim::SimStream *s = W.new_stream(n.kind == sim::FS_DIR ? std::string() : bytes, path, true);
	if (n.kind == sim::FS_DIR)
		s->eisdir = true;
	W.lib_open.insert(s->fp);
	W.lib_opened++;
	return s->fp;
}

int __wrap_fclose(FILE *fp)
{
	auto it = W.lib_open.find(fp);
	if (it != W.lib_open.end()) {
		W.lib_open.erase(it);
		W.lib_closed++;
	}
	if (W.recycle_files)
		for (sim::SimStream *s : W.streams)
			if (s->fp == fp && !s->closed) {
				// keep the FILE object for the next stream that is opened (address reuse)
				s->closed = true;
				s->fp = nullptr;
				s->recycled_fp = fp;
				W.file_pool.push_back(fp);
				return 0;
			}
	return sim::__real_fclose(fp);
}

FILE *__wrap_fmemopen(void *buf, size_t n, const char *mode)
{
	FILE *fp = sim::__real_fmemopen(buf, n, mode);
	if (fp && W.in_lib) {
		W.lib_open.insert(fp);
		W.lib_opened++;
	}
	return fp;
}

// simulated streams have file descriptors of their own, so that fstat(fileno(fp)) sees the simulated node
int __wrap_fileno(FILE *fp)
{
	if (W.in_lib)
		for (sim::SimStream *s : W.streams)
			if (s->fp == fp)
				return 1000 + s->id;
	return sim::__real_fileno(fp);
}

int __wrap_fstat(int fd, struct stat *st)
{
	if (W.in_lib && fd >= 1000 && (size_t)(fd - 1000) < W.streams.size()) {
		sim::SimStream *s = W.streams[fd - 1000];
		memset(st, 0, sizeof(*st));
		st->st_mode = s->eisdir ? (S_IFDIR | 0755) : (S_IFREG | 0644);
		st->st_size = (off_t)s->bytes.size();
		return 0;
	}
	return sim::__real_fstat(fd, st);
}

int __wrap_stat(const char *path, struct stat *st)
{
	if (!W.in_lib)
		return sim::__real_stat(path, st);
	W.stat_calls++;
	int lerr = 0;
	sim::FsNode *np = fs_lookup(path, &lerr);
	if (!np) {
		errno = lerr;
		return -1;
	}
	memset(st, 0, sizeof(*st));
	st->st_mode = np->kind == sim::FS_DIR ? (S_IFDIR | 0755) : (S_IFREG | 0644);
	if (np->kind == sim::FS_NOPERM)
		st->st_mode = S_IFREG; // exists, no permission bits
	st->st_size = (off_t)np->bytes.size();
	return 0;
}

int __wrap_lstat(const char *path, struct stat *st)
{
	if (!W.in_lib)
		return sim::__real_lstat(path, st);
	W.stat_calls++;
	int lerr = 0;
	sim::FsNode *np = fs_lookup(path, &lerr, false);
	if (!np) {
		errno = lerr;
		return -1;
	}
	memset(st, 0, sizeof(*st));
	st->st_mode = np->kind == sim::FS_DIR ? (S_IFDIR | 0755) : np->kind == sim::FS_LINK ? (S_IFLNK | 0777) : (S_IFREG | 0644);
	if (np->kind == sim::FS_NOPERM)
		st->st_mode = S_IFREG;
	st->st_size = (off_t)np->bytes.size();
	return 0;
}

// ------------------------------------------------------------------ S4 environment

char *__wrap_getenv(const char *name)
{
	if (!W.in_lib)
		return sim::__real_getenv(name);
	W.getenv_calls++;
	auto it = W.env.find(name);
	if (it == W.env.end())
		return nullptr;
	return (char *)it->second.c_str();
}

static struct passwd g_pw;
static std::string g_pw_name, g_pw_dir;

static struct passwd *fill_pw(const sim::PwEnt &e)
{
	g_pw_name = e.name;
	g_pw_dir = e.dir;
	memset(&g_pw, 0, sizeof(g_pw));
	g_pw.pw_name = (char *)g_pw_name.c_str();
	g_pw.pw_dir = (char *)g_pw_dir.c_str();
	g_pw.pw_uid = e.uid;
	return &g_pw;
}

struct passwd *__wrap_getpwnam(const char *name)
{
	if (!W.in_lib)
		return sim::__real_getpwnam(name);
	W.getpw_calls++;
	long n = (long)strlen(name); // measures its argument: an unterminated name is an over-read
	if (n > W.getpwnam_maxlen)
		W.getpwnam_maxlen = n;
	for (auto &e : W.passwd)
		if (e.name == name)
			return fill_pw(e);
	return nullptr;
}

struct passwd *__wrap_getpwuid(uid_t uid)
{
	if (!W.in_lib)
		return sim::__real_getpwuid(uid);
	W.getpw_calls++;
	for (auto &e : W.passwd)
		if (e.uid == uid)
			return fill_pw(e);
	return nullptr;
}

uid_t __wrap_geteuid(void)
{
	if (!W.in_lib)
		return sim::__real_geteuid();
	return W.euid;
}

// ------------------------------------------------------------------ S7

int __wrap_isatty(int fd)
{
	if (!W.in_lib)
		return sim::__real_isatty(fd);
	if (W.tty)
		return 1;
	errno = ENOTTY;
	return 0;
}

// ------------------------------------------------------------------ S8 process death

void __wrap_exit(int code)
{
	if (!W.in_lib)
		sim::__real_exit(code);
	W.death = sim::D_EXIT;
	W.death_info = std::to_string(code);
	siglongjmp(W.jb, 1);
}

void __wrap_abort(void)
{
	if (!W.in_lib)
		sim::__real_abort();
	W.death = sim::D_ABORT;
	W.death_info = "abort";
	siglongjmp(W.jb, 1);
}

void __wrap___assert_fail(const char *expr, const char *file, unsigned line, const char *func)
{
	if (!W.in_lib)
		sim::__real___assert_fail(expr, file, line, func);
	W.death = sim::D_ASSERT;
	W.death_info = std::string(func ? func : "?") + ":" + (expr ? expr : "?");
	siglongjmp(W.jb, 1);
}

} // extern "C"
