// Workload generators: schemas, values, and the text encoder with its token map
// (DESIGN appendix B).  Works from items to bytes, never the other way round.
#pragma once
#include <nlohmann/json.hpp>
#include <string>
#include <vector>

#include "rng.h"

namespace sim {

using json = nlohmann::json;

// public flag values of confuse.h (kept in sync by a static_assert in gen.cc)
enum {
	F_MULTI = 1 << 0, F_LIST = 1 << 1, F_NOCASE = 1 << 2, F_TITLE = 1 << 3, F_NODEFAULT = 1 << 4, F_NO_TITLE_DUPES = 1 << 5,
	F_IGNORE_UNKNOWN = 1 << 8, F_DEPRECATED = 1 << 9, F_DROP = 1 << 10, F_COMMENTS = 1 << 11, F_KEYSTRVAL = 1 << 13
};

struct Tok {
	size_t s, e;      // byte range inside the chunk
	std::string role; // n(ame) o(perator) v(alue) t(itle) p(unctuation) c(omment) a(rgument)
	std::string vt;   // value type for v tokens: int float bool str any ; for n tokens: "kv" when in a free-form section
	int depth = 0;    // section nesting depth at which the token occurs
	bool lastv = false;
	bool kv = false;  // the token lies inside a free-form (key = value) section
	std::string opt;  // declared name of the option the token belongs to
	std::string dec;  // decoded bytes of a value / title / argument token (known by construction: the generator is an encoder)
	bool has_dec = false;
};

struct Chunk {
	std::string t;
	std::vector<Tok> toks;
	std::string inc;     // for an include("...") item: the path of the file in the simulated tree it resolves to
	bool faulty = false; // the item carries an injected fault (failing include target, wrong token ...)
	// include statements inside the item (section bodies moved to files): byte range in t and the file's path
	struct Inc {
		size_t s, e;
		std::string path;
	};
	std::vector<Inc> incs;
	json to_json() const;
};

struct SchemaGen {
	int max_opts = 6;
	int max_depth = 2;
	bool lists = true;
	bool sections = true;
	bool funcs = false;      // simulator function options
	bool include = false;    // declare include()
	bool ptrs = false;
	bool pcb = false;        // value parsing callbacks on some options
	bool vcb = false;        // validators on some options
	bool vcb2 = false;       // pre-set validators on some options
	bool keystrval = false;  // free-form sections
	bool nodefault = true;
	bool title_sections = true;
	bool single_title = true;    // sections with CFGF_TITLE but without CFGF_MULTI
	bool printable_only = false; // only kinds cfg_print can write back (C05)
	bool string_defaults_hostile = false;
	bool decl_comments = false;  // some declarations carry an annotation (cfg_opt_t.comment)
	bool simple = false;         // some scalar options are bound to application variables (CFG_SIMPLE_*)
	bool deprecated = false;     // some value options are CFGF_DEPRECATED, half of those also CFGF_DROP
	bool root_name = true;       // now and then a section is called "root", like the top-level context itself
};

json gen_schema(Rng &r, const SchemaGen &g); // {"opts":[...]}

struct TextGen {
	int max_items = 8;
	int comments = 1;        // 0 none, 1 some, 2 many
	bool multiline = true;   // multi-line strings and extra newlines
	bool plus = true;        // use +=
	bool hostile = true;     // string values over bytes 1..255 biased to meta characters
	std::vector<std::string> include_targets; // if non-empty and schema declares include: sometimes emit include("target")
	bool unique_titles = false;
	int ctx_flags = 0;
	bool skip_include = false; // never emit include() items
	bool skip_funcs = false;   // never emit function calls
};

// Renders a valid text for the schema as a list of top-level item chunks.
std::vector<Chunk> gen_text(Rng &r, const json &opts, const TextGen &g);

std::string gen_string_value(Rng &r, bool hostile, int maxlen = 12);
// style: 0 unquoted (falls back to double quotes when not representable), 1 single-quoted, 2 double-quoted, -1 random
// newlines: when false the rendering stays on one line (newline bytes of the value are written as \n escapes,
// no line continuations); when true raw newlines and backslash-newline continuations may be used
std::string encode_string(Rng &r, const std::string &value, int style, bool newlines = true);
std::string gen_int_literal(Rng &r, long *value_out);
std::string gen_float_literal(Rng &r);
std::string gen_bool_literal(Rng &r);
std::string gen_comment(Rng &r, bool newline_terminated_ok = true);
std::string gen_ws(Rng &r, bool multiline);

extern const std::vector<std::string> NAME_POOL;

json chunks_to_json(const std::vector<Chunk> &cs);
std::string chunks_text(const std::vector<Chunk> &cs);

// walks a schema: calls f(path-of-steps, optdecl) for every option at every level
void for_each_opt(const json &opts, const std::function<void(const std::vector<std::string> &, const json &)> &f);

} // namespace sim

namespace sim {

struct OptRef {
	json at;    // stepwise address of the section that holds the option
	json decl;  // the option declaration
	bool in_multi = false;
};

// every option of the schema with an address (multi-section instances addressed with index 0..2)
std::vector<OptRef> collect_opts(Rng &r, const json &opts);
std::string path_prefix(Rng &r, const json &at); // the stepwise address written as leading path components

struct ApiGen {
	bool illegal = true;     // wrong type / bad index / unknown name calls
	bool sections = true;    // addtsec / rm*sec
	bool comments = true;    // setcomment
	bool searchpath = false; // addpath
	bool by_option = true;   // cfg_opt_set* variants
	bool text_setters = true; // setopt / setmulti
	bool bad_text = true;    // unconvertible text for setopt / setmulti
	bool hostile_strings = false;
	bool getters = false;
	bool print = false;
	bool flip_title_case = false; // case-insensitive runs: titles also with the letter case flipped
};

// one random API step (setter / list / section / annotation ...) against the schema
json gen_api_step(Rng &r, int cl, int ctx, const std::vector<OptRef> &refs, const ApiGen &g);

} // namespace sim
