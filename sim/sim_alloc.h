/* Force-included (-include) into the library translation units (confuse.c and
 * the flex-generated scanner).  Maps the allocator entry points to the
 * simulator's accounting / failable wrappers.  SIM_UNIT: 1 = confuse.c
 * (failable, C18 scope), 2 = generated scanner (accounting only). */
#ifndef SIM_ALLOC_H
#define SIM_ALLOC_H
#include <stddef.h>
#include <stdlib.h>
#include <string.h>
#include <stdio.h>
#ifndef SIM_UNIT
# error "SIM_UNIT must be defined"
#endif
#ifdef __cplusplus
extern "C" {
#endif
void *sim_malloc(size_t n, const char *func, int unit);
void *sim_calloc(size_t a, size_t b, const char *func, int unit);
void *sim_realloc(void *p, size_t n, const char *func, int unit);
void *sim_reallocarray(void *p, size_t a, size_t b, const char *func, int unit);
char *sim_strdup(const char *s, const char *func, int unit);
char *sim_strndup(const char *s, size_t n, const char *func, int unit);
void  sim_free(void *p, const char *func, int unit);
#ifdef __cplusplus
}
#endif
#undef malloc
#undef calloc
#undef realloc
#undef reallocarray
#undef strdup
#undef strndup
#undef free
#define malloc(n)            sim_malloc((n), __func__, SIM_UNIT)
#define calloc(a, b)         sim_calloc((a), (b), __func__, SIM_UNIT)
#define realloc(p, n)        sim_realloc((p), (n), __func__, SIM_UNIT)
#define reallocarray(p, a, b) sim_reallocarray((p), (a), (b), __func__, SIM_UNIT)
#define strdup(s)            sim_strdup((s), __func__, SIM_UNIT)
#define strndup(s, n)        sim_strndup((s), (n), __func__, SIM_UNIT)
#define free(p)              sim_free((p), __func__, SIM_UNIT)
#endif
