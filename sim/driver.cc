// Driver: worker pool, violation gate, minimiser, replay, evidence.  DESIGN sections 4.5, 8, 9.
#ifndef _GNU_SOURCE
#define _GNU_SOURCE
#endif
#include "driver.h"

#include <cerrno>
#include <chrono>
#include <csignal>
#include <fcntl.h>
#include <fstream>
#include <poll.h>
#include <sstream>
#include <sys/stat.h>
#include <sys/wait.h>
#include <unistd.h>

#include "exec.h"
#include "rng.h"
#include "world.h"

namespace sim {

extern int g_out_fd; // the real stdout (fd 1 is captured)

static double now_s()
{
	using namespace std::chrono;
	return duration<double>(steady_clock::now().time_since_epoch()).count();
}

uint64_t run_seed(uint64_t base, const std::string &prop, uint64_t idx)
{
	return mix(mix(base, fnv64(prop)), idx);
}

uint64_t plan_fingerprint(const json &plan)
{
	json p = plan;
	p.erase("seed");
	p.erase("idx");
	p.erase("violation");
	return fnv64(p.dump());
}

static void write_all(int fd, const std::string &s)
{
	size_t off = 0;
	while (off < s.size()) {
		ssize_t n = write(fd, s.data() + off, s.size() - off);
		if (n < 0) {
			if (errno == EINTR)
				continue;
			return;
		}
		off += n;
	}
}

static std::string read_all(int fd)
{
	std::string s;
	char buf[65536];
	for (;;) {
		ssize_t n = read(fd, buf, sizeof buf);
		if (n < 0) {
			if (errno == EINTR)
				continue;
			break;
		}
		if (n == 0)
			break;
		s.append(buf, n);
	}
	return s;
}

static std::string read_file(const std::string &path)
{
	std::ifstream f(path, std::ios::binary);
	std::stringstream ss;
	ss << f.rdbuf();
	return ss.str();
}

void note_subcase(const json &patch)
{
	std::string s = "\n@@SUBCASE " + patch.dump() + "\n";
	write_all(2, s);
}

static json judge_to_json(const JudgeOut &o)
{
	json j;
	j["hash"] = o.hash;
	j["discarded"] = o.discarded;
	j["viol"] = json::array();
	for (auto &v : o.viol)
		j["viol"].push_back({{"cls", v.cls}, {"detail", v.detail}, {"plan", v.plan}});
	return j;
}

// ------------------------------------------------------------------ crash classification

static std::string strip_numbers(const std::string &s)
{
	std::string o;
	for (size_t i = 0; i < s.size(); i++) {
		if (isdigit((unsigned char)s[i])) {
			if (o.empty() || o.back() != 'N')
				o += 'N';
		} else
			o += s[i];
	}
	return o;
}

std::string classify_crash(const std::string &err, int status)
{
	if (WIFSIGNALED(status) && WTERMSIG(status) == SIGALRM)
		return "hang:timeout";
	std::string kind, func;
	std::istringstream in(err);
	std::string line;
	bool in_first_stack = false;
	while (std::getline(in, line)) {
		size_t p;
		if (kind.empty() && (p = line.find("ERROR: AddressSanitizer: ")) != std::string::npos) {
			std::string rest = line.substr(p + 25);
			size_t e = rest.find_first_of(" :(");
			kind = "asan-" + rest.substr(0, e);
			if (rest.compare(0, 14, "attempting dou") == 0)
				kind = "asan-double-free";
			if (rest.compare(0, 14, "attempting fre") == 0)
				kind = "asan-bad-free";
			in_first_stack = true;
			continue;
		}
		if (kind.empty() && (p = line.find("runtime error: ")) != std::string::npos) {
			kind = "ubsan-" + strip_numbers(line.substr(p + 15));
			for (auto &c : kind)
				if (c == ' ')
					c = '_';
			// file name of the report
			size_t q = line.find(':');
			std::string file = line.substr(0, q);
			size_t sl = file.rfind('/');
			func = sl == std::string::npos ? file : file.substr(sl + 1);
			break;
		}
		if (in_first_stack && func.empty()) {
			size_t at = line.find(" in ");
			if (line.find("    #") == 0 && at != std::string::npos) {
				bool lib = line.find("confuse.c") != std::string::npos || line.find("lexer.l") != std::string::npos ||
					   line.find("lexer.c") != std::string::npos || line.find("lexer_wrap.c") != std::string::npos;
				if (lib) {
					std::string rest = line.substr(at + 4);
					func = rest.substr(0, rest.find(' '));
				}
			} else if (!line.empty() && line[0] != ' ' && line.find("    #") != 0 && line.find("==") != 0 &&
				   line.find("READ") != 0 && line.find("WRITE") != 0) {
				// end of first stack
				if (line.find("freed by") != std::string::npos || line.find("allocated by") != std::string::npos ||
				    line.find("is located") != std::string::npos)
					in_first_stack = false;
			}
		}
	}
	if (kind.empty() && (err.find("json.hpp") != std::string::npos || err.find("terminate called") != std::string::npos || err.find("/verif/sim/") != std::string::npos))
		return "checker-fault:harness-abort"; // an assertion or exception of the simulator itself, never a property violation
	if (kind.empty()) {
		if (WIFSIGNALED(status))
			return "crash:signal" + std::to_string(WTERMSIG(status));
		return "crash:exit" + std::to_string(WIFEXITED(status) ? WEXITSTATUS(status) : -1);
	}
	if (kind == "asan-stack-overflow")
		func = "-"; // the frame in which the guard page is hit depends on the initial stack depth
	return "crash:" + kind + "@" + (func.empty() ? "?" : func);
}

// ------------------------------------------------------------------ isolated evaluation

static IsoResult parse_iso(const std::string &out, const std::string &err, int status, const json &plan)
{
	IsoResult r;
	r.raw_stderr = err;
	bool ok = WIFEXITED(status) && WEXITSTATUS(status) == 0;
	if (ok) {
		try {
			json j = json::parse(out);
			r.hash = j["hash"].get<uint64_t>();
			r.discarded = j["discarded"].get<bool>();
			for (auto &v : j["viol"])
				r.viol.push_back(Violation{v["cls"].get<std::string>(), v["detail"].get<std::string>(), v["plan"]});
			return r;
		} catch (std::exception &e) {
			// fall through: treated as a crash of the child
		}
	}
	r.crashed = true;
	Violation v;
	v.cls = classify_crash(err, status);
	// crashes of stress shapes carry the shape name, so that a listed crash of one shape cannot mask another
	if (plan.contains("params") && plan["params"].is_object() && plan["params"].contains("shape") && plan["params"]["shape"].is_string())
		v.cls += ":" + plan["params"]["shape"].get<std::string>();
	// keep the tail of the report as detail
	v.detail = err.size() > 3000 ? err.substr(0, 3000) : err;
	v.plan = nullptr;
	size_t sc = err.rfind("@@SUBCASE ");
	if (sc != std::string::npos) {
		size_t e = err.find('\n', sc);
		try {
			json patch = json::parse(err.substr(sc + 10, e == std::string::npos ? std::string::npos : e - sc - 10));
			v.plan = plan.patch(patch);
		} catch (std::exception &ex) {
			v.plan = nullptr;
		}
	}
	r.viol.push_back(v);
	return r;
}

IsoResult eval_isolated(const Property &P, const json &plan, int timeout_s)
{
	int po[2], pe[2];
	if (pipe(po) || pipe(pe)) {
		perror("pipe");
		_exit(2);
	}
	pid_t pid = fork();
	if (pid == 0) {
		close(po[0]);
		close(pe[0]);
		dup2(pe[1], 2);
		close(pe[1]);
		signal(SIGALRM, SIG_DFL);
		alarm(timeout_s);
		capture_stdout();
		JudgeOut o = P.judge(plan);
		std::string s = judge_to_json(o).dump();
		write_all(po[1], s);
		_exit(0);
	}
	close(po[1]);
	close(pe[1]);
	// read both pipes without deadlock
	std::string out, err;
	struct pollfd fds[2] = {{po[0], POLLIN, 0}, {pe[0], POLLIN, 0}};
	int open_fds = 2;
	char buf[65536];
	while (open_fds > 0) {
		int rc = poll(fds, 2, -1);
		if (rc < 0) {
			if (errno == EINTR)
				continue;
			break;
		}
		for (int i = 0; i < 2; i++) {
			if (fds[i].fd < 0)
				continue;
			if (fds[i].revents & (POLLIN | POLLHUP | POLLERR)) {
				ssize_t n = read(fds[i].fd, buf, sizeof buf);
				if (n > 0)
					(i == 0 ? out : err).append(buf, n);
				else if (n == 0 || (n < 0 && errno != EINTR)) {
					close(fds[i].fd);
					fds[i].fd = -1;
					open_fds--;
				}
			}
		}
	}
	int status = 0;
	while (waitpid(pid, &status, 0) < 0 && errno == EINTR)
		;
	return parse_iso(out, err, status, plan);
}

IsoResult eval_fresh_process(const json &plan, const std::string &tmpdir)
{
	static int counter = 0;
	std::string path = tmpdir + "/fresh-" + std::to_string(getpid()) + "-" + std::to_string(counter++) + ".json";
	{
		std::ofstream f(path);
		f << plan.dump();
	}
	std::string outp = path + ".out", errp = path + ".err";
	pid_t pid = fork();
	if (pid == 0) {
		int o = open(outp.c_str(), O_WRONLY | O_CREAT | O_TRUNC, 0644);
		int e = open(errp.c_str(), O_WRONLY | O_CREAT | O_TRUNC, 0644);
		dup2(o, 1);
		dup2(e, 2);
		execl("/proc/self/exe", "confsim", "judge", path.c_str(), (char *)nullptr);
		_exit(127);
	}
	int status = 0;
	while (waitpid(pid, &status, 0) < 0 && errno == EINTR)
		;
	std::string out = read_file(outp), err = read_file(errp);
	unlink(path.c_str());
	unlink(outp.c_str());
	unlink(errp.c_str());
	return parse_iso(out, err, status, plan);
}

// ------------------------------------------------------------------ minimiser

struct Minimiser {
	const Property &P;
	std::string cls;
	int max_evals;
	double deadline;
	uint64_t evals = 0;
	json best;

	bool budget() const { return (int)evals < max_evals && now_s() < deadline; }
	bool test(const json &cand)
	{
		if (!budget())
			return false;
		evals++;
		IsoResult r = eval_isolated(P, cand, 120);
		return r.has(cls);
	}
	// ddmin-style removal on a json array reached by 'path' in best
	bool shrink_array(const json::json_pointer &ptr, size_t keep_min = 0)
	{
		bool any = false;
		if (!best.contains(ptr) || !best[ptr].is_array())
			return false;
		size_t n = best[ptr].size();
		size_t chunk = n / 2;
		if (chunk == 0)
			chunk = 1;
		while (chunk >= 1 && budget()) {
			bool removed = false;
			size_t i = 0;
			while (i < best[ptr].size() && budget()) {
				size_t len = best[ptr].size();
				if (len <= keep_min)
					break;
				size_t take = std::min(chunk, len - i);
				if (len - take < keep_min) {
					i += chunk;
					continue;
				}
				json cand = best;
				json &arr = cand[ptr];
				bool pinned = false;
				for (size_t q = i; q < i + take; q++)
					if (arr[q].is_object() && arr[q].contains("keep"))
						pinned = true;
				if (pinned) {
					// steps marked "keep" establish preconditions of the oracle and are never dropped
					if (take == 1) {
						i += 1;
						continue;
					}
					i += chunk;
					continue;
				}
				arr.erase(arr.begin() + i, arr.begin() + i + take);
				if (test(cand)) {
					best = cand;
					removed = true;
					any = true;
				} else
					i += chunk;
			}
			if (chunk == 1 && !removed)
				break;
			if (chunk > 1)
				chunk /= 2;
			else if (!removed)
				break;
		}
		return any;
	}
	bool shrink_string(const json::json_pointer &ptr)
	{
		if (!best.contains(ptr) || !best[ptr].is_string())
			return false;
		bool any = false;
		std::string s = best[ptr].get<std::string>();
		if (s.empty())
			return false;
		// work on code points: strings hold bytes 0..255 as U+00XX, i.e. 1-2 UTF-8 bytes each
		std::vector<std::string> cps;
		for (size_t i = 0; i < s.size();) {
			size_t l = ((unsigned char)s[i] >= 0xC0) ? 2 : 1;
			cps.push_back(s.substr(i, l));
			i += l;
		}
		auto join = [&](const std::vector<std::string> &v) {
			std::string o;
			for (auto &x : v)
				o += x;
			return o;
		};
		size_t chunk = cps.size() / 2;
		if (!chunk)
			chunk = 1;
		while (budget()) {
			bool removed = false;
			size_t i = 0;
			while (i < cps.size() && budget()) {
				size_t take = std::min(chunk, cps.size() - i);
				std::vector<std::string> c2(cps.begin(), cps.begin() + i);
				c2.insert(c2.end(), cps.begin() + i + take, cps.end());
				json cand = best;
				cand[ptr] = join(c2);
				if (test(cand)) {
					best = cand;
					cps = c2;
					removed = true;
					any = true;
				} else
					i += chunk;
			}
			if (chunk == 1 && !removed)
				break;
			if (chunk > 1)
				chunk /= 2;
		}
		return any;
	}
	bool try_erase_key(const json::json_pointer &obj, const std::string &key)
	{
		if (!best.contains(obj) || !best[obj].is_object() || !best[obj].contains(key))
			return false;
		json cand = best;
		cand[obj].erase(key);
		if (test(cand)) {
			best = cand;
			return true;
		}
		return false;
	}
	void shrink_schema(const json::json_pointer &opts)
	{
		if (!best.contains(opts))
			return;
		shrink_array(opts);
		for (size_t i = 0; best.contains(opts) && i < best[opts].size(); i++) {
			json::json_pointer o = opts / i;
			if (best[o].contains("sub"))
				shrink_schema(o / "sub");
			for (const char *k : {"pcb", "vcb", "vcb2", "fcb", "pf", "dp", "d"})
				try_erase_key(o, k);
		}
	}
	void shrink_source(const json::json_pointer &src)
	{
		if (!best.contains(src))
			return;
		if (best[src].contains("chunks")) {
			shrink_array(src / "chunks");
			// then flatten chunks to text for byte-level shrinking when small
			std::string t = source_text(best[src]);
			if (t.size() <= 400 && !best[src].contains("cut")) {
				json cand = best;
				cand[src].erase("chunks");
				cand[src]["text"] = t;
				if (test(cand))
					best = cand;
			}
		}
		if (best[src].contains("text") && best[src]["text"].get<std::string>().size() <= 600)
			shrink_string(src / "text");
		try_erase_key(src, "chunk");
		try_erase_key(src, "tty");
	}
	void run()
	{
		for (int round = 0; round < 3 && budget(); round++) {
			json before = best;
			shrink_array(json::json_pointer("/steps"));
			if (best.contains("steps"))
				for (size_t i = 0; i < best["steps"].size() && budget(); i++) {
					json::json_pointer sp = json::json_pointer("/steps") / i;
					// a step that carries an expectation keyed to its own arguments is removed whole or not at all
					if (best[sp].contains("refusal") || best[sp].contains("pin"))
						continue;
					for (const char *k : {"errno", "falloc", "fcb", "fcbv", "cberrno", "cb2", "cb2i", "cb2f", "at"})
						try_erase_key(sp, k);
					if (best[sp].contains("src"))
						shrink_source(sp / "src");
					if (best[sp].contains("vals"))
						shrink_array(sp / "vals", 1);
					for (const char *k : {"v", "title", "text", "name", "dir"})
						if (!best[sp].contains("keep") && best[sp].contains(k) && best[sp][k].is_string() && best[sp][k].get<std::string>().size() <= 300)
							shrink_string(sp / k);
				}
			auto frozen = [&](const char *key) {
				if (!best.contains("frozen"))
					return false;
				for (auto &f : best["frozen"])
					if (f == key)
						return true;
				return false;
			};
			if (best.contains("world") && !frozen("world")) {
				json::json_pointer wp("/world");
				if (best[wp].contains("fs")) {
					shrink_array(wp / "fs");
					for (size_t i = 0; best[wp].contains("fs") && i < best[wp]["fs"].size(); i++)
						shrink_source(wp / "fs" / i);
				}
				if (best[wp].contains("passwd"))
					shrink_array(wp / "passwd");
				if (best[wp].contains("env") && best[wp]["env"].is_object()) {
					std::vector<std::string> keys;
					for (auto it = best[wp]["env"].begin(); it != best[wp]["env"].end(); ++it)
						keys.push_back(it.key());
					for (auto &k : keys)
						try_erase_key(wp / "env", k);
				}
			}
			if (best.contains("schemas") && !frozen("schemas"))
				for (size_t i = 0; i < best["schemas"].size() && budget(); i++)
					shrink_schema(json::json_pointer("/schemas") / i / "opts");
			if (best.contains("knobs")) {
				std::vector<std::string> keys;
				for (auto it = best["knobs"].begin(); it != best["knobs"].end(); ++it)
					keys.push_back(it.key());
				for (auto &k : keys)
					try_erase_key(json::json_pointer("/knobs"), k);
			}
			if (best == before)
				break;
		}
	}
};

json minimise(const Property &P, const json &plan, const std::string &cls, int max_evals, double max_seconds, uint64_t *evals_used)
{
	Minimiser m{P, cls, max_evals, now_s() + max_seconds, 0, plan};
	m.run();
	if (evals_used)
		*evals_used = m.evals;
	return m.best;
}

// ------------------------------------------------------------------ known findings

struct Known {
	std::string property, cls, what, status;
};

static std::vector<Known> load_known(const std::string &verif_dir)
{
	std::vector<Known> out;
	std::ifstream f(verif_dir + "/known_findings.json");
	if (!f)
		return out;
	try {
		json j = json::parse(f);
		for (auto &e : j["findings"]) {
			Known k;
			k.property = e.value("property", "");
			k.cls = e.value("class", "");
			k.what = e.value("what_fails", "");
			k.status = e.value("status", "open");
			out.push_back(k);
		}
	} catch (std::exception &e) {
		fprintf(stderr, "known_findings.json unreadable: %s\n", e.what());
		_exit(2);
	}
	return out;
}

static bool glob_match(const char *p, const char *s)
{
	if (!*p)
		return !*s;
	if (*p == '*') {
		for (const char *t = s;; t++) {
			if (glob_match(p + 1, t))
				return true;
			if (!*t)
				return false;
		}
	}
	return *s && *p == *s && glob_match(p + 1, s + 1);
}

static const Known *match_known(const std::vector<Known> &ks, const std::string &prop, const std::string &cls)
{
	for (auto &k : ks) {
		if (k.status == "fixed")
			continue; // a fixed entry suppresses nothing
		if (k.property != prop)
			continue;
		if (glob_match(k.cls.c_str(), cls.c_str()))
			return &k;
	}
	return nullptr;
}

// ------------------------------------------------------------------ worker pool

struct Candidate {
	uint64_t idx;
	std::string cls;
	std::string detail;
	json plan;
	bool from_crash = false;
};

struct WorkerSlot {
	pid_t pid = -1;
	int fd = -1;
	int lane = 0;
	std::string buf;
	long cur_idx = -1;   // run in progress
	long last_done = -1; // last completed run index
	bool done = false;
};

static void worker_main(const Property &P, const CheckArgs &a, int lane, int nlanes, uint64_t start_idx, int fd, double deadline)
{
	signal(SIGALRM, SIG_DFL);
	capture_stdout(); // a private stdout capture: the memfd must not be shared between workers
	Counters total;
	uint64_t evals = 0, runs = 0, discarded = 0;
	std::vector<json> samples;
	std::unordered_set<uint64_t> seen_states; // worker-local filter: only new state fingerprints are reported
	double t_gen = 0, t_judge = 0;
	for (uint64_t idx = start_idx;; idx += nlanes) {
		if (a.max_runs && idx >= a.max_runs)
			break;
		if (now_s() >= deadline)
			break;
		write_all(fd, "S " + std::to_string(idx) + "\n");
		alarm(900); // backstop for loops that touch no seam; generous, the machine may be heavily loaded
		uint64_t seed = run_seed(a.seed, P.id, idx);
		double tg0 = now_s();
		json plan = P.generate(seed, idx, a.tier);
		plan["property"] = P.id;
		plan["seed"] = seed;
		plan["idx"] = idx;
		double tg1 = now_s();
		JudgeOut o = P.judge(plan);
		t_gen += tg1 - tg0;
		t_judge += now_s() - tg1;
		// determinism re-check on a sample of runs
		bool recheck = (idx % 64) < 2;
		if (recheck) {
			JudgeOut o2 = P.judge(plan);
			total.add("determinism.rechecks");
			if (o2.hash != o.hash || o2.viol.size() != o.viol.size()) {
				write_all(fd, "N " + std::to_string(idx) + "\n");
			}
		}
		alarm(0);
		runs++;
		evals += o.evals;
		if (o.discarded)
			discarded++;
		for (auto &kv : o.k)
			total[kv.first] += kv.second;
		std::string line = "R " + std::to_string(idx) + " " + std::to_string(o.evals) + " " + std::to_string(o.hash);
		for (uint64_t h : o.distinct)
			line += " " + std::to_string(h);
		line += "\n";
		write_all(fd, line);
		{
			std::string tl = "T";
			for (uint64_t h : o.states)
				if (seen_states.size() < 2000000 && seen_states.insert(h).second)
					tl += " " + std::to_string(h);
			if (tl.size() > 1)
				write_all(fd, tl + "\n");
			if (!o.schedules.empty()) {
				std::string sl = "H";
				for (uint64_t h : o.schedules)
					sl += " " + std::to_string(h);
				write_all(fd, sl + "\n");
			}
		}
		for (auto &v : o.viol) {
			json pv = v.plan.is_null() ? plan : v.plan;
			pv["property"] = P.id;
			pv["seed"] = seed;
			pv["idx"] = idx;
			json j = {{"idx", idx}, {"cls", v.cls}, {"detail", v.detail}, {"plan", pv}};
			write_all(fd, "V " + j.dump() + "\n");
		}
		if (lane == 0 && samples.size() < 3) {
			json s = plan;
			samples.push_back(s);
			if (samples.size() == 1) {
				// one sample carries its event log
				RunResult rr = execute(plan);
				json j = {{"plan", plan}, {"event_log", rr.log()}};
				write_all(fd, "M " + j.dump() + "\n");
			} else
				write_all(fd, "M " + json({{"plan", plan}}).dump() + "\n");
		}
	}
	total["runs"] = runs;
	total["discarded"] = discarded;
	total["time.generate_ms"] = (uint64_t)(t_gen * 1000);
	total["time.judge_ms"] = (uint64_t)(t_judge * 1000);
	for (auto &kv : total)
		write_all(fd, "K " + kv.first + " " + std::to_string(kv.second) + "\n");
	write_all(fd, "D\n");
	_exit(0);
}

static json truncate_sample(json s)
{
	std::string d = s.dump();
	if (d.size() < 20000)
		return s;
	return json({{"truncated", d.substr(0, 20000)}});
}

int run_check(const CheckArgs &a)
{
	const Property *Pp = find_property(a.prop);
	if (!Pp) {
		fprintf(stderr, "unknown property %s\n", a.prop.c_str());
		return 2;
	}
	const Property &P = *Pp;
	double t0 = now_s();
	double seconds = a.seconds > 0 ? a.seconds : (a.tier ? P.thorough_seconds : P.quick_seconds);
	double deadline = t0 + seconds;
	std::string outdir = a.verif_dir + "/out";
	mkdir(outdir.c_str(), 0755);
	mkdir((outdir + "/replay").c_str(), 0755);
	mkdir((outdir + "/tmp").c_str(), 0755);
	std::vector<Known> known = load_known(a.verif_dir);
	{
		// stale replay files of this property must not be mistaken for results of this run
		std::string cmd = "rm -f " + outdir + "/replay/" + P.id + "-*.json";
		if (system(cmd.c_str()) != 0) {
		}
	}

	int nw = a.workers;
	std::vector<WorkerSlot> slots(nw);
	auto spawn = [&](int lane, uint64_t start_idx) {
		int p[2];
		if (pipe(p)) {
			perror("pipe");
			_exit(2);
		}
		pid_t pid = fork();
		if (pid == 0) {
			close(p[0]);
			for (auto &s : slots)
				if (s.fd >= 0)
					close(s.fd);
			worker_main(P, a, lane, nw, start_idx, p[1], deadline);
			_exit(0);
		}
		close(p[1]);
		slots[lane].pid = pid;
		slots[lane].fd = p[0];
		slots[lane].lane = lane;
		slots[lane].buf.clear();
		slots[lane].cur_idx = -1;
		slots[lane].done = false;
	};
	for (int i = 0; i < nw; i++)
		spawn(i, i);

	Counters total;
	uint64_t evaluations = 0, runs = 0;
	std::unordered_set<uint64_t> distinct, states, schedules;
	std::vector<Candidate> cands;
	std::map<std::string, uint64_t> cls_counts;
	std::vector<json> samples;
	uint64_t worker_deaths = 0, nondet = 0;
	const size_t DISTINCT_CAP = 8000000;
	bool distinct_capped = false;

	auto handle_line = [&](WorkerSlot &s, const std::string &line) {
		if (line.empty())
			return;
		char t = line[0];
		if (t == 'S') {
			s.cur_idx = atol(line.c_str() + 2);
		} else if (t == 'R') {
			std::istringstream in(line.substr(2));
			uint64_t idx, ev, h;
			in >> idx >> ev >> h;
			evaluations += ev;
			runs++;
			uint64_t d;
			while (in >> d) {
				if (distinct.size() < DISTINCT_CAP)
					distinct.insert(d);
				else
					distinct_capped = true;
			}
			s.last_done = idx;
			s.cur_idx = -1;
		} else if (t == 'H') {
			std::istringstream in(line.substr(1));
			uint64_t d;
			while (in >> d)
				if (schedules.size() < DISTINCT_CAP)
					schedules.insert(d);
		} else if (t == 'T') {
			std::istringstream in(line.substr(1));
			uint64_t d;
			while (in >> d)
				if (states.size() < DISTINCT_CAP)
					states.insert(d);
		} else if (t == 'V') {
			json j = json::parse(line.substr(2));
			Candidate c;
			c.idx = j["idx"].get<uint64_t>();
			c.cls = j["cls"].get<std::string>();
			c.detail = j["detail"].get<std::string>();
			c.plan = j["plan"];
			cls_counts[c.cls]++;
			// keep at most 2 candidates per class (smallest plans first is decided later)
			size_t have = 0;
			for (auto &x : cands)
				if (x.cls == c.cls)
					have++;
			if (have < 2)
				cands.push_back(c);
		} else if (t == 'K') {
			std::istringstream in(line.substr(2));
			std::string k;
			uint64_t v;
			in >> k >> v;
			total[k] += v;
		} else if (t == 'M') {
			if (samples.size() < 3)
				samples.push_back(truncate_sample(json::parse(line.substr(2))));
		} else if (t == 'N') {
			nondet++;
			fprintf(stderr, "nondeterminism at run index %s\n", line.c_str() + 2);
		} else if (t == 'D') {
			s.done = true;
		}
	};

	// VERIF_FAST=1 (mutation screening only): stop at the first candidate, no gate, no minimisation, no evidence
	const bool fast = ::getenv("VERIF_FAST") != nullptr;
	int live = nw;
	while (live > 0) {
		bool fast_hit = false;
		std::string fast_cls;
		if (fast) {
			for (auto &c : cands)
				if (c.from_crash || !match_known(known, P.id, c.cls)) {
					fast_hit = true;
					fast_cls = c.from_crash ? "(worker death)" : c.cls;
					break;
				}
		}
		if (fast && fast_hit) {
			for (auto &s : slots)
				if (s.pid > 0 && s.fd >= 0)
					kill(s.pid, SIGKILL);
			for (auto &s : slots)
				if (s.pid > 0)
					waitpid(s.pid, nullptr, 0);
			dprintf(g_out_fd, "FAST: candidate violation of %s: %s\n", P.id.c_str(), fast_cls.c_str());
			return 1;
		}
		std::vector<struct pollfd> pf;
		std::vector<int> who;
		for (int i = 0; i < nw; i++)
			if (slots[i].fd >= 0) {
				pf.push_back({slots[i].fd, POLLIN, 0});
				who.push_back(i);
			}
		if (pf.empty())
			break;
		int rc = poll(pf.data(), pf.size(), 1000);
		if (rc < 0 && errno != EINTR)
			break;
		for (size_t k = 0; k < pf.size(); k++) {
			if (!(pf[k].revents & (POLLIN | POLLHUP | POLLERR)))
				continue;
			WorkerSlot &s = slots[who[k]];
			char buf[65536];
			ssize_t n = read(s.fd, buf, sizeof buf);
			if (n > 0) {
				s.buf.append(buf, n);
				size_t pos;
				while ((pos = s.buf.find('\n')) != std::string::npos) {
					std::string line = s.buf.substr(0, pos);
					s.buf.erase(0, pos + 1);
					handle_line(s, line);
				}
				continue;
			}
			if (n < 0 && errno == EINTR)
				continue;
			// EOF: worker finished or died
			close(s.fd);
			s.fd = -1;
			int status = 0;
			while (waitpid(s.pid, &status, 0) < 0 && errno == EINTR)
				;
			if (s.done) {
				live--;
				continue;
			}
			worker_deaths++;
			long crashed = s.cur_idx;
			if (crashed >= 0) {
				uint64_t seed = run_seed(a.seed, P.id, crashed);
				json plan = P.generate(seed, crashed, a.tier);
				plan["property"] = P.id;
				plan["seed"] = seed;
				plan["idx"] = (uint64_t)crashed;
				Candidate c;
				c.idx = crashed;
				c.cls = "";
				c.plan = plan;
				c.from_crash = true;
				size_t nc = 0;
				for (auto &x : cands)
					if (x.from_crash)
						nc++;
				cls_counts["(worker death)"]++;
				if (nc < 24)
					cands.push_back(c);
				if (now_s() < deadline && worker_deaths < 2000) {
					spawn(s.lane, crashed + nw);
					continue;
				}
			}
			live--;
		}
	}
	double t_explore = now_s() - t0;
	if (fast) {
		for (auto &c : cands)
			if (c.from_crash || !match_known(known, P.id, c.cls)) {
				dprintf(g_out_fd, "FAST: candidate violation of %s: %s\n", P.id.c_str(), c.from_crash ? "(worker death)" : c.cls.c_str());
				return 1;
			}
		dprintf(g_out_fd, "FAST: %s no candidate in %lu runs\n", P.id.c_str(), (unsigned long)runs);
		return 0;
	}

	// ---- process candidates: classify, gate, minimise, replay, known findings
	int exit_code = 0;
	uint64_t violations = 0, known_seen = 0, gate_failures = 0;
	json findings = json::array();
	std::set<std::string> handled;
	std::map<std::string, std::vector<std::string>> known_hits;
	std::string tmpdir = outdir + "/tmp";
	for (auto &c : cands) {
		if (c.from_crash) {
			IsoResult r = eval_isolated(P, c.plan, 600);
			if (r.viol.empty()) {
				// the worker died but the plan does not reproduce in isolation: checker fault
				dprintf(g_out_fd, "checker fault: a worker died at run index %lu but the plan does not reproduce a violation in isolation\n", (unsigned long)c.idx);
				gate_failures++;
				continue;
			}
			c.cls = r.viol[0].cls;
			c.detail = r.viol[0].detail;
			if (!r.viol[0].plan.is_null())
				c.plan = r.viol[0].plan;
		}
		if (handled.count(c.cls))
			continue;
		handled.insert(c.cls);
		if (c.cls.compare(0, 14, "checker-fault:") == 0) {
			fprintf(stderr, "CHECKER FAULT: %s at idx %lu\n%s\n", c.cls.c_str(), (unsigned long)c.idx, c.detail.substr(0, 600).c_str());
			dprintf(g_out_fd, "checker fault (not a violation): %s at run index %lu\n", c.cls.c_str(), (unsigned long)c.idx);
			gate_failures++;
			continue;
		}
		// gate (1): twice in-process-forked, same class
		IsoResult g1 = eval_isolated(P, c.plan, 600), g2 = eval_isolated(P, c.plan, 600);
		// gate (2): fresh process
		IsoResult g3 = eval_fresh_process(c.plan, tmpdir);
		if (!g1.has(c.cls) || !g2.has(c.cls) || !g3.has(c.cls) || g1.hash != g2.hash) {
			dprintf(g_out_fd, "checker fault: class %s (run index %lu) failed the reproduction gate (isolated %d/%d, fresh process %d, hash %s)\n", c.cls.c_str(),
				(unsigned long)c.idx, g1.has(c.cls), g2.has(c.cls), g3.has(c.cls), g1.hash == g2.hash ? "same" : "differs");
			gate_failures++;
			continue;
		}
		uint64_t used = 0;
		const Known *k = match_known(known, P.id, c.cls);
		// a listed finding is not minimised again on every run: its replay file is the gated plan
		json minimal = k ? c.plan : minimise(P, c.plan, c.cls, a.tier ? 3000 : 1200, a.tier ? 40 : 15, &used);
		IsoResult g4 = eval_fresh_process(minimal, tmpdir);
		if (!g4.has(c.cls))
			minimal = c.plan; // keep the un-minimised plan: it passed the gate
		std::string detail = c.detail;
		for (auto &v : g4.viol)
			if (v.cls == c.cls)
				detail = v.detail;
		std::string safe = c.cls;
		for (auto &ch : safe)
			if (!isalnum((unsigned char)ch) && ch != '-' && ch != '_' && ch != '.')
				ch = '_';
		if (safe.size() > 80)
			safe.resize(80);
		std::string rp = outdir + "/replay/" + P.id + "-" + std::to_string(c.idx) + "-" + safe + ".json";
		minimal["property"] = P.id;
		minimal["violation"] = {{"class", c.cls}, {"detail", detail.substr(0, 4000)}, {"minimiser_evals", used}, {"original_idx", c.idx}, {"base_seed", a.seed}};
		{
			std::ofstream f(rp);
			f << minimal.dump(1) << "\n";
		}
		json fj = {{"class", c.cls}, {"count", cls_counts[c.cls]}, {"replay", rp}, {"steps", minimal.contains("steps") ? minimal["steps"].size() : 0}};
		if (k) {
			known_seen++;
			known_hits[k->what].push_back(c.cls + " (" + std::to_string(cls_counts[c.cls]) + " runs, replay=" + rp + ")");
			fj["known"] = true;
		} else {
			violations++;
			exit_code = 1;
			dprintf(g_out_fd, "VIOLATION property=%s replay=%s\n", P.id.c_str(), rp.c_str());
			dprintf(g_out_fd, "  class: %s (%lu runs)\n  detail: %s\n", c.cls.c_str(), (unsigned long)cls_counts[c.cls],
				detail.substr(0, 1500).c_str());
			fj["known"] = false;
		}
		findings.push_back(fj);
	}
	for (auto &kh : known_hits) {
		dprintf(g_out_fd, "KNOWN-FINDING: property=%s %s\n", P.id.c_str(), kh.first.c_str());
		for (auto &c : kh.second)
			dprintf(g_out_fd, "  seen as class %s\n", c.c_str());
	}
	// every listed (open) finding of this property is printed, also when this run did not reach it
	for (auto &k : known)
		if (k.status != "fixed" && k.property == P.id && !known_hits.count(k.what))
			dprintf(g_out_fd, "KNOWN-FINDING: property=%s %s [listed in known_findings.json; not reached by this run]\n", P.id.c_str(), k.what.c_str());
	if (nondet) {
		dprintf(g_out_fd, "checker fault: %lu re-checked runs produced a different event-log hash (nondeterminism)\n", (unsigned long)nondet);
		gate_failures += nondet;
	}
	uint64_t discarded = total.count("discarded") ? total["discarded"] : 0;
	if (runs && discarded * 2 > runs) {
		dprintf(g_out_fd, "checker fault: more than half of the plans were discarded (%lu of %lu): explored too little\n", (unsigned long)discarded, (unsigned long)runs);
		gate_failures++;
	}
	if (runs == 0) {
		dprintf(g_out_fd, "checker fault: no run completed\n");
		gate_failures++;
	}
	if (gate_failures && exit_code == 0)
		exit_code = 2;

	// ---- reach probes
	json probes = json::object();
	std::vector<std::string> zero_probes;
	for (auto &p : P.probes) {
		uint64_t v = total.count("probe." + p) ? total["probe." + p] : 0;
		probes[p] = v;
		if (!v)
			zero_probes.push_back(p);
	}

	// ---- evidence
	double wall = now_s() - t0;
	if (!a.no_evidence) {
		json cov;
		cov["evaluations"] = evaluations;
		cov["distinct_nontrivial"] = distinct.size();
		cov["rule"] = P.rule + (distinct_capped ? " (distinct count capped at 8e6 entries: lower bound)" : "");
		cov["samples"] = samples;
		cov["distinct_context_states"] = states.size();
		cov["states_measure"] = "distinct canonical dumps (whole context tree through public getters: names, types, sizes, values, titles, reset/modified markers, annotations) observed after any step of any execution";
		cov["distinct_schedules"] = schedules.size();
		cov["schedules_measure"] = "distinct sequences of (client, operation kind) of plans with two interleaved clients / parties (0 for properties whose plans have a single client: their schedule dimension is empty)";
		cov["runs"] = runs;
		cov["runs_per_hour"] = t_explore > 0 ? (uint64_t)(runs * 3600.0 / t_explore) : 0;
		cov["seeds_per_hour"] = cov["runs_per_hour"];
		cov["executions_per_hour"] = t_explore > 0 ? (uint64_t)(evaluations * 3600.0 / t_explore) : 0;
		json steps = json::object(), faults = json::object(), other = json::object();
		for (auto &kv : total) {
			if (kv.first.compare(0, 5, "step.") == 0)
				steps[kv.first.substr(5)] = kv.second;
			else if (kv.first.compare(0, 6, "fault.") == 0)
				faults[kv.first.substr(6)] = kv.second;
			else if (kv.first.compare(0, 6, "probe.") == 0)
				probes[kv.first.substr(6)] = kv.second;
			else
				other[kv.first] = kv.second;
		}
		cov["simulated_time"] = {{"unit", "logical steps (the library reads no clock; there is no simulated wall-clock)"}, {"steps", steps}};
		cov["faults"] = faults;
		cov["reach_probes"] = probes;
		cov["reach_probes_at_zero"] = zero_probes;
		cov["counters"] = other;
		cov["components"] = P.components;
		cov["isolation"] = "in-process image restart (snapshot/restore of the library's .data/.bss, " + std::to_string(image_bytes()) +
				   " bytes) inside forked workers; violations re-executed in a fresh process";
		cov["workers"] = nw;
		cov["worker_deaths"] = worker_deaths;
		cov["determinism_rechecks"] = total.count("determinism.rechecks") ? total["determinism.rechecks"] : 0;
		cov["determinism_mismatches"] = nondet;
		cov["known_findings_seen"] = known_seen;
		cov["findings"] = findings;
		cov["gate_failures"] = gate_failures;
		cov["discarded_plans"] = discarded;
		cov["exhaustive"] = false;
		json ev;
		ev["property_id"] = P.id;
		ev["tier"] = a.tier ? "thorough" : "quick";
		ev["seed"] = a.seed;
		ev["level"] = P.level;
		ev["coverage"] = cov;
		ev["assumptions"] = P.assumptions;
		ev["wall_s"] = wall;
		ev["violations"] = violations;
		mkdir((a.verif_dir + "/evidence").c_str(), 0755);
		std::ofstream f(a.verif_dir + "/evidence/" + P.id + ".json");
		f << ev.dump(1) << "\n";
	}
	dprintf(g_out_fd, "%s %s: runs=%lu executions=%lu distinct_nontrivial=%zu violations=%lu known=%lu worker_deaths=%lu explore=%.1fs wall=%.1fs exit=%d\n",
		P.id.c_str(), a.tier ? "thorough" : "quick", (unsigned long)runs, (unsigned long)evaluations, distinct.size(), (unsigned long)violations,
		(unsigned long)known_seen, (unsigned long)worker_deaths, t_explore, wall, exit_code);
	if (!zero_probes.empty()) {
		std::string z;
		for (auto &p : zero_probes)
			z += p + " ";
		dprintf(g_out_fd, "note: reach probes at zero: %s\n", z.c_str());
	}
	return exit_code;
}

int run_replay(const std::string &file, const std::string &verif_dir)
{
	json plan;
	try {
		std::ifstream f(file);
		plan = json::parse(f);
	} catch (std::exception &e) {
		fprintf(stderr, "cannot read %s: %s\n", file.c_str(), e.what());
		return 2;
	}
	std::string pid = plan.value("property", "");
	const Property *P = find_property(pid);
	if (!P) {
		fprintf(stderr, "unknown property '%s' in %s\n", pid.c_str(), file.c_str());
		return 2;
	}
	std::string want = plan.contains("violation") ? plan["violation"].value("class", "") : "";
	IsoResult r = eval_isolated(*P, plan, 60);
	std::vector<Known> known = load_known(verif_dir);
	int rc = 0;
	for (auto &v : r.viol) {
		const Known *k = match_known(known, pid, v.cls);
		if (k)
			dprintf(g_out_fd, "KNOWN-FINDING: property=%s %s [class %s]\n", pid.c_str(), k->what.c_str(), v.cls.c_str());
		else {
			dprintf(g_out_fd, "VIOLATION property=%s replay=%s\n  class: %s\n  detail: %s\n", pid.c_str(), file.c_str(), v.cls.c_str(),
				v.detail.substr(0, 3000).c_str());
			rc = 1;
		}
	}
	if (r.viol.empty())
		dprintf(g_out_fd, "replay of %s: no violation (expected class: %s)\n", file.c_str(), want.c_str());
	else if (!want.empty() && !r.has(want))
		dprintf(g_out_fd, "note: expected class %s was not reproduced\n", want.c_str());
	return rc;
}

int run_selftest(const std::string &verif_dir, uint64_t seed, int samples)
{
	// Determinism: every seed executed (a) twice in this process, (b) in a forked child,
	// (c) in a fresh process; all event-log hashes must agree.
	int bad = 0;
	uint64_t checked = 0;
	std::string tmpdir = verif_dir + "/out/tmp";
	mkdir((verif_dir + "/out").c_str(), 0755);
	mkdir(tmpdir.c_str(), 0755);
	for (const Property *P : all_properties()) {
		for (int i = 0; i < samples; i++) {
			uint64_t s = run_seed(seed, P->id, i);
			json plan = P->generate(s, i, 0);
			plan["property"] = P->id;
			IsoResult a1 = eval_isolated(*P, plan), a2 = eval_isolated(*P, plan);
			bool ok = a1.hash == a2.hash && a1.viol.size() == a2.viol.size();
			if (i % 8 == 0) {
				IsoResult a3 = eval_fresh_process(plan, tmpdir);
				ok = ok && a3.hash == a1.hash && a3.viol.size() == a1.viol.size();
			}
			// plan generation itself must be deterministic
			json plan2 = P->generate(s, i, 0);
			plan2["property"] = P->id;
			ok = ok && plan2 == plan;
			checked++;
			if (!ok) {
				bad++;
				dprintf(g_out_fd, "selftest: nondeterminism in %s seed index %d\n", P->id.c_str(), i);
			}
		}
	}
	dprintf(g_out_fd, "selftest: %lu plans re-executed, %d mismatches\n", (unsigned long)checked, bad);
	return bad ? 2 : 0;
}

} // namespace sim
