/* Wrapper translation unit for the flex-generated scanner: includes it
 * unmodified and adds read-only accessors used for coverage measurement only
 * (no oracle depends on them). */
#include "lexer.c"
int sim_lexer_start_condition(void) { return (yy_start - 1) / 2; }
int sim_lexer_buffer_depth(void)
{
	if (!yy_buffer_stack)
		return 0;
	return (int)yy_buffer_stack_top + (yy_buffer_stack[yy_buffer_stack_top] ? 1 : 0);
}
int sim_lexer_read_buf_size(void) { return YY_READ_BUF_SIZE; }
