// Executor: a pure function of (plan, code under test) -> recorded history.
#pragma once
#include <cstdint>
#include <nlohmann/json.hpp>
#include <string>
#include <utility>
#include <vector>

#include "world.h"

namespace sim {

using json = nlohmann::json;

struct Diag {
	std::string file; // "(null)" when the context handed to the error function has no file name
	int line;
	std::string sec;  // name of the context handed to the error function
	std::string msg;  // the formatted message
};

struct OpResult {
	int index = -1;       // position in the global schedule
	int client = 0;
	int ctx = -1;
	std::string op;
	bool skipped = false; // context absent etc.
	long ret = 0;
	std::string sres;     // string result (searchpath, tilde, print text ...)
	bool has_sres = false;
	std::vector<Diag> diags;
	std::vector<std::string> cbs; // callback invocation log
	std::string dump;     // canonical dump of the op's context after the op (when requested)
	std::string out;      // bytes that appeared on stdout during the op
	uint64_t stdin_read = 0; // bytes taken from the process's standard input during the op
	DeathKind death = D_NONE;
	std::string death_info;
	bool fail_fired = false;
	std::string fail_site;
	uint64_t u1_requests = 0; // allocation requests issued by confuse.c during the op
	uint64_t cb_count = 0;    // parse/validate/function callback invocations during the op
	int start_cond_before = 0; // coverage only
	int inc_depth_before = 0;  // coverage only
	std::vector<std::string> aux; // extra observations (restart texts, freshness ...)
	json tree;                    // structured form of the dump (when ExecOpts::want_tree)
	std::string line() const;  // canonical one-line rendering (event log)
};

struct ExecOpts {
	bool scrub = false;      // restore scanner image + errno before every API call (O-scrub)
	int only_client = -1;    // execute only this client's ops (O-solo)
	bool dump_each = true;   // canonical dump after every op that names a context
	int stop_after = -1;     // stop after this schedule index (inclusive)
	int fill_override = -1;  // use this fill byte instead of the plan's knob
	int errno_override = -1000; // if != -1000: ambient errno before every API call
	int tty_override = -1;
	bool want_tree = false;  // also record the dump as a JSON tree
};

struct RunResult {
	std::vector<OpResult> ops;
	std::vector<std::string> conservation; // conservation findings at end of run (6.4), canonical strings
	bool died = false;                     // a library call did not return (S8 / budget)
	uint64_t hash = 0;                     // fingerprint of the event log
	std::string log() const;
	// counters
	uint64_t allocs_u1 = 0, allocs_u2 = 0, reads = 0, cb_invocations = 0, api_calls = 0;
	uint64_t files_recycled = 0; // streams that were opened on the FILE object of a closed one (address reuse)
	uint64_t faults_fired_alloc = 0, faults_fired_cb = 0;
	std::vector<int> start_conds; // start condition seen before each parse op (coverage)
};

// Execute a plan from a pristine process image.  Leaves the image pristine again.
RunResult execute(const json &plan, const ExecOpts &opts = ExecOpts());

uint64_t fnv64(const std::string &s, uint64_t h = 1469598103934665603ULL);
std::string esc(const std::string &s);
std::string source_text(const json &src); // concatenated chunk texts (or "text"), decoded to raw bytes, cut applied
std::string from_json_bytes(const std::string &u); // JSON strings hold bytes 0..255 as U+0000..U+00FF
std::string to_json_bytes(const std::string &raw);
std::string bytes_of(const json &j);

} // namespace sim
