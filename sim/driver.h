// Driver: worker pool, violation gate, minimiser, replay, evidence.
#pragma once
#include "prop.h"

namespace sim {

struct IsoResult {
	std::vector<Violation> viol; // includes a synthetic crash/hang violation when the child died
	bool crashed = false;
	bool discarded = false;
	uint64_t hash = 0;
	std::string raw_stderr;
	bool has(const std::string &cls) const
	{
		for (auto &v : viol)
			if (v.cls == cls)
				return true;
		return false;
	}
};

// Judge a plan in a forked child of the current (pristine) process.
IsoResult eval_isolated(const Property &P, const json &plan, int timeout_s = 300);

// Judge a plan in a fresh process (exec of this binary).
IsoResult eval_fresh_process(const json &plan, const std::string &tmpdir);

// Greedy delta debugging on the plan while the violation class persists.
json minimise(const Property &P, const json &plan, const std::string &cls, int max_evals, double max_seconds, uint64_t *evals_used);

struct CheckArgs {
	std::string prop;
	int tier = 0; // 0 quick, 1 thorough
	uint64_t seed = 1;
	int workers = 16;
	double seconds = -1;
	uint64_t max_runs = 0; // 0 = unlimited (time bound only)
	std::string verif_dir = "/verif";
	bool no_evidence = false;
};

int run_check(const CheckArgs &a);
int run_replay(const std::string &file, const std::string &verif_dir);
int run_selftest(const std::string &verif_dir, uint64_t seed, int samples);

uint64_t run_seed(uint64_t base, const std::string &prop, uint64_t idx);

} // namespace sim
