// Precompiled header for the harness translation units.

#include <algorithm>
#include <cstdint>
#include <cstdio>
#include <cstdlib>
#include <cstring>
#include <functional>
#include <map>
#include <nlohmann/json.hpp>
#include <set>
#include <string>
#include <unordered_map>
#include <unordered_set>
#include <vector>
