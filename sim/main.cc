// confsim: deterministic simulation of libConfuse.  See DESIGN.md.
#ifndef _GNU_SOURCE
#define _GNU_SOURCE
#endif
#include <fcntl.h>
#include <fstream>
#include <unistd.h>

#include "driver.h"
#include "exec.h"
#include "gen.h"
#include "rng.h"
#include "world.h"

namespace sim {
int g_out_fd = 1;

static std::vector<Property *> &registry()
{
	static std::vector<Property *> r;
	return r;
}
void register_property(Property *p) { registry().push_back(p); }
const Property *find_property(const std::string &id)
{
	for (auto *p : registry())
		if (p->id == id)
			return p;
	return nullptr;
}
std::vector<const Property *> all_properties()
{
	std::vector<const Property *> v(registry().begin(), registry().end());
	std::sort(v.begin(), v.end(), [](const Property *a, const Property *b) { return a->id < b->id; });
	return v;
}
} // namespace sim

using namespace sim;

// Sanitizer deaths must be classifiable; leak checking is done exactly by the simulator.
extern "C" __attribute__((used)) const char *__asan_default_options()
{
	return "exitcode=77:detect_leaks=0:quarantine_size_mb=2:thread_local_quarantine_size_kb=64:abort_on_error=0:allocator_may_return_null=1:detect_stack_use_after_return=0:"
	       "symbolize=1:external_symbolizer_path=/usr/bin/llvm-symbolizer:handle_abort=0";
}
extern "C" __attribute__((used)) const char *__ubsan_default_options() { return "print_stacktrace=0:halt_on_error=1:exitcode=77"; }

static int usage()
{
	fprintf(stderr, "usage: confsim check <ID> [--tier quick|thorough] [--seed N] [--workers N] [--seconds S] [--runs N] [--verif DIR]\n"
			"       confsim replay <file>   |  confsim judge <file>  |  confsim exec <file> [--scrub]\n"
			"       confsim emit <ID> <seed> <idx> [tier]  |  confsim selftest [--seed N] [--samples N]  |  confsim list\n");
	return 2;
}

int main(int argc, char **argv)
{
	if (argc < 2)
		return usage();
	std::string cmd = argv[1];
	// keep the real stdout for our own output; fd 1 becomes the captured "process stdout" (S9)
	g_out_fd = dup(1);
	fcntl(g_out_fd, F_SETFD, FD_CLOEXEC);
	capture_stdout();
	if (!getenv("VERIF_DEBUG")) {
		int dn = open("/dev/null", O_WRONLY);
		if (cmd != "judge" && cmd != "exec")
			dup2(dn, 2), close(dn);
	}
	setenv("LC_ALL", "C", 1);
	image_snapshot();

	std::string verif = "/verif";
	CheckArgs a;
	if (const char *s = getenv("VERIF_SEED"))
		a.seed = strtoull(s, nullptr, 10);
	if (const char *t = getenv("VERIF_TIER"))
		a.tier = std::string(t) == "thorough";
	uint64_t samples = 24;
	bool scrub = false;
	std::vector<std::string> pos;
	for (int i = 2; i < argc; i++) {
		std::string s = argv[i];
		auto next = [&]() -> std::string { return i + 1 < argc ? argv[++i] : ""; };
		if (s == "--tier")
			a.tier = next() == "thorough";
		else if (s == "--seed")
			a.seed = strtoull(next().c_str(), nullptr, 10);
		else if (s == "--workers")
			a.workers = atoi(next().c_str());
		else if (s == "--seconds")
			a.seconds = atof(next().c_str());
		else if (s == "--runs")
			a.max_runs = strtoull(next().c_str(), nullptr, 10);
		else if (s == "--verif")
			verif = next();
		else if (s == "--samples")
			samples = strtoull(next().c_str(), nullptr, 10);
		else if (s == "--scrub")
			scrub = true;
		else if (s == "--no-evidence")
			a.no_evidence = true;
		else
			pos.push_back(s);
	}
	a.verif_dir = verif;

	if (cmd == "gentest") {
		// generator self-check: how often is a "valid" rendered text rejected, and why
		uint64_t bad = 0, n = samples;
		for (uint64_t i = 0; i < n; i++) {
			Rng r(mix(a.seed, i));
			SchemaGen sg;
			sg.funcs = true;
			sg.include = true;
			sg.ptrs = true;
			sg.pcb = r.chance(1, 2);
			sg.vcb = r.chance(1, 2);
			sg.keystrval = true;
			json schema = gen_schema(r, sg);
			int flags = (r.chance(1, 2) ? F_COMMENTS : 0) | (r.chance(1, 4) ? F_NOCASE : 0);
			TextGen tg;
			tg.ctx_flags = flags;
			tg.comments = 2;
			tg.skip_include = true;
			json plan;
			plan["schemas"] = json::array({schema});
			json init = {{"cl", 0}, {"op", "init"}, {"c", 0}, {"flags", flags}};
			json p = {{"cl", 0}, {"op", "parse"}, {"c", 0}, {"src", {{"kind", "buf"}, {"chunks", chunks_to_json(gen_text(r, schema["opts"], tg))}}}};
			plan["steps"] = json::array({init, p});
			RunResult rr = execute(plan);
			if (rr.ops.size() > 1 && (rr.ops[1].ret != 0 || !rr.ops[1].diags.empty())) {
				bad++;
				if (bad <= 12)
					dprintf(g_out_fd, "---- seed index %lu ret=%ld diag=%s:%d\nSCHEMA %s\nTEXT %s\n", (unsigned long)i, rr.ops[1].ret,
						rr.ops[1].diags.empty() ? "-" : rr.ops[1].diags[0].file.c_str(), rr.ops[1].diags.empty() ? 0 : rr.ops[1].diags[0].line,
						schema.dump().substr(0, 1500).c_str(), esc(source_text(p["src"])).c_str());
			}
		}
		dprintf(g_out_fd, "gentest: %lu of %lu generated texts were not accepted silently\n", (unsigned long)bad, (unsigned long)n);
		return 0;
	}
	if (cmd == "list") {
		for (auto *p : all_properties())
			dprintf(g_out_fd, "%s %s\n", p->id.c_str(), p->level.c_str());
		return 0;
	}
	if (cmd == "check") {
		if (pos.empty())
			return usage();
		a.prop = pos[0];
		return run_check(a);
	}
	if (cmd == "replay") {
		if (pos.empty())
			return usage();
		return run_replay(pos[0], verif);
	}
	if (cmd == "selftest")
		return run_selftest(verif, a.seed, (int)samples);
	if (cmd == "emit") {
		if (pos.size() < 3)
			return usage();
		const Property *P = find_property(pos[0]);
		if (!P)
			return 2;
		uint64_t seed = strtoull(pos[1].c_str(), nullptr, 10), idx = strtoull(pos[2].c_str(), nullptr, 10);
		json plan = P->generate(run_seed(seed, P->id, idx), idx, pos.size() > 3 ? atoi(pos[3].c_str()) : 0);
		plan["property"] = P->id;
		dprintf(g_out_fd, "%s\n", plan.dump(1).c_str());
		return 0;
	}
	if (cmd == "judge" || cmd == "exec") {
		if (pos.empty())
			return usage();
		json plan;
		try {
			std::ifstream f(pos[0]);
			plan = json::parse(f);
		} catch (std::exception &e) {
			fprintf(stderr, "cannot read plan: %s\n", e.what());
			return 2;
		}
		if (cmd == "exec") {
			ExecOpts o;
			o.scrub = scrub;
			RunResult r = execute(plan, o);
			dprintf(g_out_fd, "%shash=%016lx died=%d\n", r.log().c_str(), (unsigned long)r.hash, r.died);
			return 0;
		}
		const Property *P = find_property(plan.value("property", ""));
		if (!P) {
			fprintf(stderr, "unknown property in plan\n");
			return 2;
		}
		JudgeOut o = P->judge(plan);
		if (getenv("VERIF_TWICE")) {
			JudgeOut o2 = P->judge(plan);
			fprintf(stderr, "twice: %016lx %016lx\n", (unsigned long)o.hash, (unsigned long)o2.hash);
		}
		json j;
		j["hash"] = o.hash;
		j["discarded"] = o.discarded;
		j["viol"] = json::array();
		for (auto &v : o.viol)
			j["viol"].push_back({{"cls", v.cls}, {"detail", v.detail}, {"plan", v.plan}});
		dprintf(g_out_fd, "%s\n", j.dump().c_str());
		return 0;
	}
	return usage();
}
