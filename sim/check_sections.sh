#!/bin/bash
# Fails the build if a library object has a non-empty writable section that the
# process-image snapshot would miss (DESIGN 4.4).  .data.rel.ro* holds constants that merely need relocation
# (tables of pointers to string literals): read-only once loaded, not part of the mutable image.
obj="$1"
bad=$(objdump -h "$obj" | awk '
  /^ *[0-9]+ / { name=$2; size=strtonum("0x"$3); getline flags;
    if (size > 0 && flags ~ /ALLOC/ && flags !~ /READONLY/ && flags !~ /CODE/) {
      if (name !~ /^sim[dbr](cfg|lex)$/ && name !~ /^\.(init|fini)_array/ && name !~ /^\.(tm_clone_table|preinit_array)/ && name !~ /^\.data\.rel\.ro/) print name
    } }')
if [ -n "$bad" ]; then
  echo "check_sections: $obj has writable sections outside the process image: $bad" >&2
  exit 1
fi
