/* Fixed platform description used by the verification build instead of the
 * generated /repo/config.h (which is untracked and may be absent after a
 * restore).  Describes this sandbox: glibc 2.36.  No NLS: diagnostics are the
 * untranslated msgids (message text is never part of an oracle). */
#ifndef VERIF_CONFIG_H
#define VERIF_CONFIG_H
#define HAVE_FMEMOPEN 1
#define HAVE_REALLOCARRAY 1
#define HAVE_STRCASECMP 1
#define HAVE_STRDUP 1
#define HAVE_STRNDUP 1
#define HAVE_STRINGS_H 1
#define HAVE_STRING_H 1
#define HAVE_SYS_STAT_H 1
#define HAVE_SYS_TYPES_H 1
#define HAVE_UNISTD_H 1
#define PACKAGE "confuse"
#define PACKAGE_STRING "libConfuse verif"
#define PACKAGE_VERSION "verif"
#endif
