#!/usr/bin/env python3
"""Writes /verif/MANIFEST.json from the table below (kept in one place so it stays valid)."""
import json, os, sys
V = os.path.dirname(os.path.dirname(os.path.abspath(__file__)))

NA = {
 "C01": "pure function of (schema, flags, text sequence): deciding it needs a second implementation of the language compared over generated inputs (differential property testing); no schedule, fault or environment state enters its statement",
 "C03": "lexical decoding is a pure table from (literal bytes, environment map) to a value; owning getenv adds hermeticity, not a fault or a schedule",
 "C11": "path resolution is a pure function of (tree, path string): no I/O, no state between calls; its allocation failures are injected under C18 and hostile path strings reach it under C02",
 "C12": "metamorphic law over input texts (inserting well-formed unknown items); nothing for a scheduler or fault injector to decide (the deep-nesting crash clause is covered under C02)",
 "C15": "metamorphic law over input texts (comment / white-space insertion); the empty-comment crash with annotations on is covered under C02",
 "C19": "print output is a pure function of (state, filter predicates, print callbacks); the callbacks' results are ordinary inputs, not failures",
}

# id -> (level category, level text, level note, technique, design ref)
CHECKS = {}
def chk(i, cat, text, note, tech, ref):
    CHECKS[i] = (cat, text, note, tech, ref)

chk("C08", "exploration",
    "Seeded search over histories of aborted/accepted parses, API range failures, context free/re-init and two interleaved clients, followed by probe parses (also rejected and accepted probes into a re-used context: errors inside sections an earlier parse opened, deprecated / dropped options assigned again); every history is executed as is, again with all process-global library state (scanner image, cfg_yylval, errno) reset before each API call, per-client solo, and each probe alone in a fresh image; any difference in return code, diagnostics (file, line and message text) or canonical dump is a violation. A third of the plans add a re-entry step: while a text is parsed, the first callback releases another context, parses into another one, or creates, fills and releases a temporary one - the outcome for the context being parsed must equal the run without that action. A text or value failing its range check must leave the context's values untouched (O-trace); a parse after an earlier parse into the same context must end like the same parse without it, a search directory added in between included (O-hist); half of the plans re-use the FILE objects of closed streams. Sampling, not proof.",
    "Trusts the executor's canonical dump (public getters only) and the process-image restart (validated by the determinism self-test and by fresh-process replay of every violation). Event texts and probes are a fixed catalogue.",
    "deterministic simulation: seeded history/schedule search with differential oracles (O-scrub, O-fresh, O-solo)", "7/C08")

chk("C18", "fault_enumeration",
    "For each workload (9 fixed plans covering every public entry point plus seeded ones) and each step, the baseline counts the allocation requests issued by confuse.c and the step is re-run once per k with the k-th request failing - exhaustive over k per workload, as the property's quantifier demands. Each faulted run must not abort/exit/assert or trip ASan/UBSan; the faulted call must report failure or leave exactly the fault-free state; afterwards the context is dumped, printed and freed, nothing may leak, and a probe parse into a fresh context must give the fault-free result.",
    "Workloads are a finite sample (complete over k for each). Scanner-internal allocations never fail (out of scope by the quantifier). 'Reports failure' is decided per entry point (DESIGN appendix A.4).",
    "deterministic simulation: exhaustive single-allocation-failure injection per workload step, conservation + recovery oracles", "7/C18")

chk("C07", "fault_enumeration",
    "Even runs: for a seeded schema and rendered valid text (optionally including a file) the source is cut before/inside/after EVERY token and every token is replaced by wrong tokens - in the main text and in the included file - each followed by print, a second parse and free. Odd runs: seeded API histories (setters, bulk set, list set/append, section add/remove, annotation, search path, valid and corrupted parses, print, restart, free+re-init). After every run all contexts are freed and the simulator's exact accounting must balance: no live block, every library-opened stream closed, every pointer value released exactly once, include stack empty; ASan reports double free / use after free.",
    "Complete over cut/corruption points per generated text; texts and histories are sampled. Trusts the allocator/stream seams' accounting and ASan.",
    "deterministic simulation: systematic error-point enumeration (cut / token corruption at every token) and seeded API histories with conservation invariants", "7/C07")

chk("C02", "exploration",
    "Seeded search: a rendered valid text under a random schema is damaged by storage faults (cut, byte flips 0..255, duplicated/zeroed/deleted blocks, spliced meta tokens, tail garbage) and delivered by every route (buffer, chunked stream, file, include); one run in 16 is a stress shape (10^5 nested unknown / known sections, 1 MiB tokens, 10^5 list elements, every unterminated construct, directory/empty/unreadable/missing/self-including targets as path and include target - absolute, through a search directory written with or without a trailing slash, and as ~ / ~user names that expand to a directory -, hostile option-name paths); section names include the name root; half of the plans re-use the FILE objects of closed streams (address reuse). Monitored in every run: ASan+UBSan, the exit/abort/assert seams, bytes on stdout, bytes taken from standard input (a scanner that lost its input falls back to stdin), allocation/read/callback step budgets (termination), return code; afterwards the context is printed, parsed into again and freed, and a fresh context must parse a probe exactly as in a fresh process image.",
    "Sampling over an unbounded input space; damage is seeded, not coverage-guided. Mid-stream read errors other than EISDIR are not injected (no property covers them). Uninitialised reads are observed only through ASan/UBSan and the fill byte.",
    "deterministic simulation: seeded storage-fault injection on input sources over all delivery routes, with death/stdout/budget monitors and recovery probe", "7/C02")

chk("C13", "exploration",
    "Seeded search: an accepted rendered text is split at item boundaries into a random tree of include files (depth 0..9; absolute, search-path-relative and tilde names; a third of the trees reach some files through symbolic links; buffer/stream/file delivery) and must give exactly the dump of the flat text obtained by writing every included file in place (O-flat); a wrong token appended to the includer - also inside a single section that an included file opened first - must be reported with the includer's own file name and line (position restored); search paths with a non-existing directory, a directory of same-named directories, or a later directory of same-named wrong files around the right one; a quarter of the trees with a callback that creates, fills and releases a temporary context in mid-parse; every failing target (missing, directory, unreadable, one level too deep, self-inclusion, error inside the included file, empty name) must be a reported parse error with no exit/abort, an empty include stack and all streams closed afterwards, followed by a good include that must work; histories of 1..12 failing includes are followed by the include tree in a new context compared with a fresh process image.",
    "Splitting is at top-level item boundaries only. Expected lines come from the generator's own text (newlines counted once). Oracles with expectations first establish that the fault-free source is accepted silently.",
    "deterministic simulation: simulated file tree + failing-target injection + history/recovery probes, flat-vs-split differential oracle", "7/C13")

chk("C17", "exploration",
    "Seeded search over simulated file namespaces (regular file / directory / unreadable / absent / symbolic link to any of these, to itself or to nowhere at every candidate location, distinct marker per file; names with a directory part; a directory name that makes the candidate longer than NAME_MAX; $HOME set to something else than the account's home), passwd databases (known and unknown users, effective uid with or without an entry) and search-path sequences (existing, missing, duplicated, tilde-prefixed directories); every result of cfg_searchpath, cfg_tilde_expand, cfg_parse and include() is compared with a 40-line reference resolver (first directory in add order holding a regular file; absolute bypass; tilde via passwd), results must be fresh blocks, top-level parse and include must pick the same file (marker), and the whole history must be identical under allocator fill bytes 0x00 / 0xA5 / 0xFF while the simulated getpwnam measures its argument under ASan.",
    "Trusts the reference resolver. Uninitialised-memory dependence is decided by the fill-byte differential and ASan, not MSan.",
    "deterministic simulation: simulated file namespace + passwd database, reference resolver model, fill-byte differential", "7/C17")

chk("C04", "exploration",
    "Seeded conversions through every route (parser scalar and list element, cfg_setopt, cfg_setmulti by name/by option) for int, float and bool options, each preceded by an injected ambient errno (0, ERANGE, EINVAL, ENOENT, EINTR, EBADF, 12345). Every plan is re-executed under other ambient errno values and with all process-global state scrubbed before each call: outcomes must be identical (the history/errno clause, which only a simulator-style harness reaches). Each outcome is also compared with exact reference models (128-bit integer model per radix, decimal float grammar + strtod value, boolean word table): accepted iff complete in-range numeral/word, exact value, rejection always with a diagnostic. Tokens: all strings of length <= 4 over a 14-symbol numeral alphabet (sampled quick, cycled completely thorough) plus about 130 boundary tokens (range limits per radix, prefixes without digits, signs, every kind of white space strtol/strtod would skip in front and behind, underflow, prefixes and near-misses of the boolean words).",
    "Reference models encode my reading of the statement; forms the statement is silent about (sign before 0x/0b, upper-case prefixes, inf/nan, hex floats) are explicit don't-cares; underflow to zero or a denormal is a must-reject (not a finite-range numeral).",
    "deterministic simulation: ambient-errno fault injection with differential oracles (O-errno, O-scrub) plus reference conversion models", "7/C04")

chk("C09", "exploration",
    "Seeded operation histories (3-30 calls: typed setters by name/by option with index, list set/append, bulk string set, titled-section add, remove by index/title/path - paths of one or several components with numeric, bare, quoted, escaped and malformed qualifiers, titles including the empty one and ones containing | ' = -, deliberately illegal calls; a quarter of the runs case-insensitive with the letter case of titles flipped; every by-name accessor is cross-checked against its by-option counterpart; a third of the calls go through their second entry point - cfg_setint, cfg_opt_rmnsec, cfg_opt_setcomment ...) from the pristine state or a state produced by an accepted parse, for one or two interleaved clients, stepped in lock-step against a small executable abstract store (ordered value sequence per option, ordered title-keyed section sequence per section option): after every call the return value and the observable projection (sizes, values, titles in order, modified flags) must match the model; every client's outcomes must equal its solo run.",
    "Sequential refinement against a reference model over sampled histories; no fault is injected for this property (the scheduler contributes the two-client interleaving only). Rules the statement is silent about are explicit don't-cares listed in the evidence assumptions.",
    "deterministic simulation: seeded API histories checked by refinement against an executable reference model, two-client interleaving vs solo runs", "7/C09")

chk("C10", "exploration",
    "Seeded histories bring options into the state classes {pristine default, explicitly set, emptied, annotated, list of n, sections present}; then refusing calls are injected: bulk set with the unconvertible element at the first/middle/last position, by-name setter vetoed by a simulator pre-set validator (scalar and list), wrong-type setter, index beyond a scalar, duplicate title, removal of a missing index/title/path (malformed indices, qualifiers on single sections, empty qualifiers, nested paths; whether the path really does not resolve is decided by the C09 store model on the configuration before the call), text refused by a value-parsing callback, unconvertible set-from-text on scalars and lists, section calls on value options, unknown name. Every refusing call must report failure and the whole context tree (values, order, annotation, reset/modified markers of every option) must be identical before and after.",
    "Sampling over (state class x refusal kind x position); the snapshot is taken through public getters and public flag bits.",
    "deterministic simulation: refusal injection (vetoing callback party, poisoned element at a chosen position, illegal request) with snapshot oracle", "7/C10")

chk("C05", "exploration",
    "Seeded histories (accepted parses of rendered texts and setter/list/section/annotation calls with string values and titles over bytes 1..255 biased to quotes, backslashes, $, {, CR/LF pairs, comment markers, titles longer than 255 bytes) reach states of printable schemas; at plan-chosen points the context is saved with cfg_print into the simulated file system, freed, re-created from the same declarations and loaded, twice in a row, and the history continues on the reloaded context. The load must be accepted; sections, titles, list lengths and values must be equal (strings bytewise, floats to printed precision); with annotations off the second text equals the first; in every case the text after the second cycle equals the text after the first.",
    "States with no textual form (NULL string value, removed single section) are don't-cares; titled single sections are not generated. The simulated environment is live during the load.",
    "deterministic simulation: save / process-restart / load injected at arbitrary points of seeded API+parse histories, round-trip oracle", "7/C05")

chk("C06", "fault_enumeration",
    "For a rendered valid text (any mix of comment styles, blank lines, multi-line strings; buffer/stream/file; in half of the runs spread over an include tree in the simulated file system) the generator knows file and extent of every token; for EVERY token of every file one run per applicable fault is executed: undeclared name (also as the leaf of a path into a section), empty quoted name, unconvertible value, invalid escape raised by the scanner, wrong punctuation, premature end right before and inside the token, an included file ending inside a single-quoted string, an include target that cannot be opened (missing / unreadable / directory); with callbacks in the schema, for every invocation k the k-th one refuses through cfg_error(). A failed parse must return the parse-error code, deliver at least one diagnostic, and the context handed to the error function at the first diagnostic must name the damaged file and the line on which the offending token ends; an accepted parse must deliver no diagnostic.",
    "Complete over token positions per generated text; texts are sampled. Expected lines count newlines of the generator's own text once (no parser model). The schedule dimension is empty for this property.",
    "deterministic simulation: exhaustive per-token fault injection (wrong token / bad value / cut) in a simulated include tree with a line oracle from the generator's token map", "7/C06")

chk("C14", "fault_enumeration",
    "Callback parties are simulator functions whose verdicts come from the plan. For seeded schemas (value-parsing callbacks of all five kinds, validators, pre-set validators, function options, options bound to application variables, annotation support on in half of the plans, deprecated / dropped options, callbacks that leave errno set, registration paths in another letter case under CFGF_NOCASE; the k-th invocation refuses with 1, -1, 2 or -7; callback-produced integers beyond 32 bits) and rendered texts whose decoded values the generator knows by construction, the complete invocation trace of the fault-free parse is aligned with the text (once per value, input order, exact decoded bytes, exact decoded function arguments, validator after every stored value and seeing it through read-only re-entry); then for EVERY k the parse is repeated with the k-th invocation returning non-zero: it must fail, invoke nothing afterwards, and leave every top-level option other than the one under assignment exactly as after the items before the failing one (O-prefix). One plan in five vetoes / rewrites by-name setters through the pre-set validator.",
    "Complete over k per text; texts sampled. Options with callbacks carry no parsed defaults. The extra validator call at a list's closing brace is accepted, not required.",
    "deterministic simulation: callback parties with exhaustive k-th-invocation failure injection, trace alignment and prefix-state oracle", "7/C14")

chk("C16", "exploration",
    "In every run the caller's declaration arrays and all strings in them are overwritten with 0xDD and freed right after cfg_init(), so any later read is an ASan use-after-free. Two contexts created from the same declarations are driven by two clients whose scripts (accepted parses, cleanly rejected parses, texts the scanner gives up on in mid-string, setters, annotations, callback and print-filter registration, print, free + re-init; one party in four without an error function of its own; an undeclared-key probe at the end) are interleaved by a seeded schedule; in a third of the runs the two parties are two instances of one multi section inside one context (with print filters, validators and search directories of their own, the context's search path borrowed), followed by a third instance created late that must equal a pristine instance. After every step the party's outcome (return value, diagnostics, canonical dump, callback log / instance subtree) must equal its outcome in the solo run.",
    "Sampling over schedules and scripts. Options bound to caller variables are excluded (sharing is their contract). errno is pinned so that the C04 mechanism cannot fire; include files are not part of these plans (process-wide include state is C08's and C13's).",
    "deterministic simulation: seeded two-party interleavings compared with solo runs, declaration memory poisoned and freed under ASan", "7/C16")

PENDING = {}  # id -> reason (checks not built yet)

def main():
    props = [json.loads(l) for l in open(os.path.join(V, "properties.jsonl"))]
    ids = [p["id"] for p in props]
    checks = []
    for i in ids:
        if i in CHECKS:
            cat, text, note, tech, ref = CHECKS[i]
            checks.append({
                "property_id": i,
                "quick_cmd": "./check %s quick" % i,
                "thorough_cmd": "./check %s thorough" % i,
                "evidence_file": "/verif/evidence/%s.json" % i,
                "replay_cmd_template": "./check replay {path}",
                "engine": "confsim",
                "level_claimed": {"category": cat, "text": text, "design_ref": "DESIGN.md section " + ref},
                "level_note": note,
                "technique": tech,
            })
    na = []
    for i in ids:
        if i in CHECKS:
            continue
        if i in NA:
            na.append({"property_id": i, "reason": NA[i]})
        else:
            na.append({"property_id": i, "reason": PENDING.get(i, "simulation target (DESIGN.md section 7), check not built yet: not claimed until its check exists and passes on the unchanged tree")})
    m = {
        "version": 1,
        "setup_cmd": "./check build",
        "hooks": {
            "guard": "MARTINH_LIBCONFUSE_VERIF",
            "enable": "no source hooks exist: /verif/check compiles /repo/src/confuse.c and the flex output of /repo/src/lexer.l unmodified with a force-included allocator header and link-time --wrap seams (DESIGN.md section 3); -DMARTINH_LIBCONFUSE_VERIF is passed but nothing in /repo tests it",
            "baseline_off_cmd": "make -C /repo check",
            "source_commits": [],
            "add_only": True,
        },
        "engines": [{
            "name": "confsim", "path": "/verif/sim",
            "serves_properties": sorted(CHECKS.keys()),
            "kind_free_text": "deterministic simulator for libConfuse: seed -> explicit JSON plan (schemas, world, steps with attached faults) -> executor over the real library with allocator / stream / file-namespace / environment / callback / process-death seams; in-process image restart; forked worker pool; violation gate, plan minimiser, replay",
        }],
        "checks": checks,
        "not_applicable": na,
        "notes": "Technique family: deterministic simulation with fault injection. Exit codes of every check: 0 held (possibly with KNOWN-FINDING lines), 1 unlisted violation (VIOLATION line with replay file), 2 checker fault. Known findings and fixed entries: /verif/known_findings.json (no finding is open at the end of the build round).",
    }
    json.dump(m, open(os.path.join(V, "MANIFEST.json"), "w"), indent=1)
    print("wrote MANIFEST.json: %d checks, %d not_applicable" % (len(checks), len(na)))

if __name__ == "__main__":
    main()
