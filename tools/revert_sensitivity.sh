#!/bin/bash
# Sensitivity: revert each repaired defect in a scratch worktree of /repo (outside /repo and /verif) and confirm
# that the check of the property it belongs to raises an alarm.  Usage: revert_sensitivity.sh [seconds]
SECS="${1:-12}"
V=/verif
python3 - <<'PY' > /tmp/revert_list.txt
import json
k=json.load(open('/verif/known_findings.json'))
seen=set()
for f in k['findings']:
    if f.get('status')=='fixed':
        key=(f['commit'],f['property'])
        if key not in seen:
            seen.add(key); print(f['commit'],f['property'])
PY
while read -r commit prop; do
  wt=/tmp/wt-revert-$commit
  rm -rf "$wt"; git -C /repo worktree prune
  git -C /repo worktree add -q --detach "$wt" HEAD >/dev/null 2>&1
  if ! git -C "$wt" revert -n "$commit" >/dev/null 2>&1; then
    echo "$commit $prop: revert does not apply cleanly (skipped)"
    git -C /repo worktree remove --force "$wt"; continue
  fi
  out=$(VERIF_REPO="$wt" "$V/check" "$prop" quick --seconds "$SECS" --no-evidence 2>&1)
  rc=$?
  cls=$(echo "$out" | grep -m3 "^  class:" | sed 's/^  class: //' | tr '\n' ';')
  echo "$commit $prop: exit=$rc $cls"
  git -C /repo worktree remove --force "$wt"
done < /tmp/revert_list.txt
rm -f /tmp/revert_list.txt
