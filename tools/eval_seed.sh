#!/bin/bash
# usage: eval_seed.sh <dir with patch.diff demo.c> <property id> [seconds] [extra check ids...]
# Confirms an independently written breaking change in a scratch worktree (outside /repo and /verif):
# the patch applies, the repository's own tests still pass, the demonstration fails with it and passes without
# it; then runs the property's quick check against the patched tree.  The worktree is removed afterwards.
D="$(cd "$1" && pwd)"; P="$2"; SECS="${3:-15}"; shift 3 2>/dev/null
EXTRA="$*"
wt=/tmp/wt-seed-$$; rm -rf $wt; git -C /repo worktree prune
# a seed is evaluated on the current HEAD when its patch still applies there, otherwise on the commit it was written against
BASE=HEAD
if ! git -C /repo apply --check "$D/patch.diff" 2>/dev/null; then
  BASE=$(python3 -c "import json,sys; print(json.load(open('$D/meta.json')).get('base_commit','HEAD'))" 2>/dev/null || echo HEAD)
  echo "(patch does not apply to HEAD any more: evaluated on its base commit $BASE)"
fi
git -C /repo worktree add -q --detach $wt $BASE || exit 2
demo_build() { # worktree
  /verif/tools/build_and_test.sh "$1" > "$1/_bt.log" 2>&1; tail -1 "$1/_bt.log"
  # a seed may need extra link flags for its demonstration (e.g. allocator wrapping): seed dir file "demo.ldflags"
  gcc -w -I"$1/src" "$D/demo.c" "$1/_b/libconfuse.a" $(cat "$D/demo.ldflags" 2>/dev/null) -o "$1/_b/demo" 2>"$1/_demo_build.log" || { echo "demo build failed"; cat "$1/_demo_build.log" | head -5; }
}
echo "== original tree"; demo_build $wt; ( cd $wt/_b && timeout 60 ./demo >/dev/null 2>&1 ); echo "demo exit on original: $?"
if ! git -C $wt apply "$D/patch.diff"; then echo "PATCH DOES NOT APPLY"; git -C /repo worktree remove --force $wt; exit 2; fi
echo "== patched tree"; demo_build $wt; ( cd $wt/_b && timeout 60 ./demo >/dev/null 2>&1 ); echo "demo exit with patch: $?"
for id in $P $EXTRA; do
  out=$(VERIF_REPO=$wt /verif/check $id quick --seconds $SECS --no-evidence 2>&1); rc=$?
  echo "check $id: exit=$rc $(echo "$out" | grep -m4 '^  class:' | sed 's/^  class: //' | tr '\n' ';')"
done
git -C /repo worktree remove --force $wt
