#!/bin/bash
# usage: eval_benign.sh <dir with patch.diff> [seconds]
# A behaviour-preserving change must raise no alarm: applies the patch in a scratch worktree (outside /repo and
# /verif), runs the repository's own tests, then every registered check (quick tier) against the patched tree.
D="$(cd "$1" && pwd)"; SECS="${2:-15}"
wt=/tmp/wt-benign-$$; rm -rf $wt; git -C /repo worktree prune
git -C /repo worktree add -q --detach $wt HEAD || exit 2
if ! git -C $wt apply "$D/patch.diff"; then echo "PATCH DOES NOT APPLY"; git -C /repo worktree remove --force $wt; exit 2; fi
/verif/tools/build_and_test.sh $wt > $wt/_bt.log 2>&1; tail -1 $wt/_bt.log
bad=0
for id in C02 C04 C05 C06 C07 C08 C09 C10 C13 C14 C16 C17 C18; do
  out=$(VERIF_REPO=$wt /verif/check $id quick --seconds $SECS --no-evidence 2>&1); rc=$?
  [ $rc -ne 0 ] && bad=1
  echo "check $id: exit=$rc $(echo "$out" | grep -m4 -E '^  class:|checker-fault|build failed' | sed 's/^  class: //' | tr '\n' ';')"
done
git -C /repo worktree remove --force $wt
exit $bad
