#!/bin/bash
# runs the repository's own suite (guard off) and prints only the summary
make -C "${1:-/repo}" check 2>&1 | grep -E "^# (TOTAL|PASS|FAIL|ERROR)|^(FAIL|ERROR):" | tr '\n' ' '; echo
