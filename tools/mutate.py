#!/usr/bin/env python3
"""Mutation screening of the checks: applies simple syntactic mutations to the library in scratch worktrees
(outside /repo and /verif), keeps the mutants that compile and pass the repository's own tests, and runs the
quick checks against each (VERIF_FAST: stop at the first candidate violation).  Survivors are listed for review:
each is an equivalent mutant, a change only a not-applicable property would see, or a blind spot.

usage: mutate.py <seed> <count> [seconds-per-check] [file ...]      results: /verif/out/mutation-<seed>.jsonl
"""
import json, os, random, re, subprocess, sys, time

REPO = os.environ.get("MUT_REPO", "/repo")
V = "/verif"
ORDER = ["C07", "C09", "C10", "C18", "C02", "C08", "C13", "C06", "C05", "C14", "C16", "C17", "C04"]

def sh(cmd, **kw):
    return subprocess.run(cmd, shell=True, stdout=subprocess.PIPE, stderr=subprocess.STDOUT, text=True, **kw)

SWAPS = [("==", "!="), ("!=", "=="), ("<=", "<"), (">=", ">"), (" < ", " <= "), (" > ", " >= "), ("&&", "||"), ("||", "&&"),
         (" + 1", ""), (" - 1", ""), ("++", "--"), ("|= ", "&= ~"), ("&= ~", "|= ")]

def candidates(lines, fname):
    out = []
    infunc = False
    for i, l in enumerate(lines):
        s = l.strip()
        if not s or s.startswith(("/*", "*", "//", "#")) or "_(" in s and "cfg_error" in s:
            continue
        if fname.endswith(".l") and i < 90:
            continue
        for a, b in SWAPS:
            if a in l and "include" not in l and "for (" not in l:
                out.append((i, "swap", a, b))
        if re.match(r"^\s*(free|fclose|cfg_free\w*)\(.*\);\s*$", l) or re.match(r"^\s*[\w>.\-\[\]]+\s*(\|=|&=|=)\s*[^=].*;\s*$", l) and "for" not in l:
            out.append((i, "delete", None, None))
        if re.match(r"^\s*(return NULL|return CFG_FAIL|goto error|break|continue);\s*$", l):
            out.append((i, "delete", None, None))
        if re.match(r"^\s*if \(.*\)\s*$", l) or re.match(r"^\s*(} else )?if \(.*\) \{\s*$", l):
            out.append((i, "negate", None, None))
    return out

def apply(lines, m):
    i, kind, a, b = m
    l = lines[i]
    if kind == "swap":
        return lines[:i] + [l.replace(a, b, 1)] + lines[i + 1:]
    if kind == "delete":
        return lines[:i] + [re.sub(r"\S.*$", ";", l.rstrip("\n")) + "\n"] + lines[i + 1:]
    if kind == "negate":
        return lines[:i] + [re.sub(r"if \((.*)\)(\s*\{?\s*)$", r"if (!(\1))\2", l.rstrip("\n"), count=1) + "\n"] + lines[i + 1:]
    return lines

def main():
    seed = int(sys.argv[1]); count = int(sys.argv[2]); secs = sys.argv[3] if len(sys.argv) > 3 else "4"
    files = sys.argv[4:] or ["src/confuse.c", "src/lexer.l"]
    rnd = random.Random(seed)
    pool = []
    for f in files:
        lines = open(os.path.join(REPO, f)).readlines()
        for m in candidates(lines, f):
            pool.append((f, m))
    rnd.shuffle(pool)
    outp = os.path.join(V, "out", "mutation-%d.jsonl" % seed)
    os.makedirs(os.path.dirname(outp), exist_ok=True)
    done = 0
    for f, m in pool:
        if done >= count:
            break
        wt = "/tmp/mut-%d-%d" % (seed, done)
        sh("rm -rf %s; git -C %s worktree prune; git -C %s worktree add -q --detach %s HEAD" % (wt, REPO, REPO, wt))
        path = os.path.join(wt, f)
        lines = open(path).readlines()
        new = apply(lines, m)
        if new == lines:
            sh("git -C %s worktree remove --force %s" % (REPO, wt)); continue
        open(path, "w").writelines(new)
        rec = {"file": f, "line": m[0] + 1, "kind": m[1], "from": m[2], "to": m[3], "orig": lines[m[0]].rstrip("\n"), "mutant": new[m[0]].rstrip("\n")}
        r = sh("/verif/tools/build_and_test.sh %s" % wt)
        if "SUMMARY" not in r.stdout or not r.stdout.strip().endswith("0 failed"):
            rec["status"] = "killed_by_repo_tests_or_build"
        else:
            killed = None
            t0 = time.time()
            for cid in ORDER:
                c = sh("VERIF_FAST=1 VERIF_REPO=%s %s/check %s quick --seconds %s --no-evidence" % (wt, V, cid, secs))
                if c.returncode == 1:
                    cls = [x for x in c.stdout.splitlines() if x.startswith("FAST:")]
                    killed = (cid, cls[0] if cls else "?")
                    break
                if c.returncode != 0:
                    killed = (cid, "exit %d: %s" % (c.returncode, c.stdout[-300:]))
                    break
            rec["status"] = "killed" if killed else "SURVIVED"
            rec["killed_by"] = killed
            rec["secs"] = round(time.time() - t0, 1)
            done += 1
        open(outp, "a").write(json.dumps(rec) + "\n")
        print(rec["status"], rec.get("killed_by"), "%s:%d" % (f, rec["line"]), rec["mutant"].strip()[:100], flush=True)
        sh("git -C %s worktree remove --force %s" % (REPO, wt))

if __name__ == "__main__":
    main()
