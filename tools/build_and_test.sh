#!/bin/bash
# usage: tools/build_and_test.sh <worktree>   builds libconfuse from <worktree>/src with plain gcc and runs the
# repository's 24 test programs against it.  Prints PASS/FAIL per test and a summary; exit 0 iff all pass.
# Also leaves <worktree>/_b/libconfuse.a and headers usable for your own demonstration program:
#   gcc -I<worktree>/src demo.c <worktree>/_b/libconfuse.a -o demo
set -u
W="$(cd "$1" && pwd)"; B="$W/_b"; rm -rf "$B"; mkdir -p "$B"
cp /repo/config.h "$B/config.h"
( cd "$W/src" && flex -Pcfg_yy -o"$B/lexer.c" lexer.l ) || { echo "flex failed"; exit 2; }
CF="-g -O1 -DLOCALEDIR=\"/usr/local/share/locale\" -DHAVE_CONFIG_H -D_GNU_SOURCE -I$B -I$W/src -w"
gcc $CF -c "$W/src/confuse.c" -o "$B/confuse.o" || { echo "compile failed"; exit 2; }
gcc $CF -c "$B/lexer.c" -o "$B/lexer.o" || { echo "compile failed"; exit 2; }
ar rcs "$B/libconfuse.a" "$B/confuse.o" "$B/lexer.o"
fail=0; n=0
for t in "$W"/tests/*.c; do
  name=$(basename "$t" .c)
  gcc $CF -DSRC_DIR='"'"$W/tests"'"' "$t" "$B/libconfuse.a" -o "$B/t_$name" 2>"$B/t_$name.log" || { echo "FAIL(build) $name"; fail=$((fail+1)); continue; }
  n=$((n+1))
  if ( cd "$W/tests" && timeout 60 "$B/t_$name" >"$B/t_$name.out" 2>&1 ); then echo "PASS $name"; else echo "FAIL $name"; fail=$((fail+1)); fi
done
echo "SUMMARY: $n tests, $fail failed"
[ "$fail" -eq 0 ]
